//! C03 — merging abstract values over-approximates both inputs and is stable.
//!
//! Monitor shape: the real `merge` / `merge_with` of every domain in scope is executed on
//! generated values; an independent concretisation γ (written here from the documentation of
//! the domains, never by calling merge or copying its algorithm) decides every execution by
//! pointwise set inclusion:
//!
//!   (1) γ(a) ∪ γ(b) ⊆ γ(a ⊔ b)                       over-approximation
//!   (2) γ(a ⊔ a) = γ(a)   (also for m = a ⊔ b)        self-merge
//!   (3) for m = a ⊔ b: γ(m ⊔ b) ⊆ γ(m), γ(m ⊔ a) ⊆ γ(m)   stability
//!   (4) the same three for `merge_with`, and γ(merge_with) = γ(merge)
//!
//! ## What "stable" means here (decision, see also the final report)
//! The statement says: "Merging a value with something it already absorbed does not enlarge its
//! *represented set*". It is therefore a statement about γ only. `IntervalDomain` carries
//! bookkeeping that is *not* part of γ (widening hints, `widening_delay`); the code documents
//! that the delay is `max` of the inputs on merges and is reset to the interval length after a
//! widening, and that hints are consumed by a widening and re-acquired from the inputs on the
//! next merge. Hence `m.merge(b)` may legitimately differ from `m` structurally (other delay,
//! hints re-added) although nothing new is represented. Structural (in)equality is therefore
//! only recorded as an observation; the verdict is `γ(m.merge(b)) ⊆ γ(m)`. This is exactly the
//! documented intent of `signed_merge_and_widen`: "If the merged interval equals one of the
//! input intervals as value sets, do not perform widening" — so re-merging an absorbed value
//! must never widen, whatever the delay counter says. For the same reason `merge_with` is
//! compared with `merge` by γ; a structural difference is an observation, not a violation.
//!
//! γ per domain (from the docs):
//! * `BitvectorDomain`: `Value v ↦ {v}`, `Top ↦` all values of the width.
//! * `IntervalDomain`: `{start, start+stride, …, end}` as signed values of the width
//!   (x is a member iff `start ≤s x ≤s end` and `stride | x−start`, `stride = 0` ⇒ `x = start`);
//!   hints and delay do not change γ. 1-byte intervals: γ is a 256-bit bitmap built by testing
//!   every one of the 256 values (exhaustive by members).
//! * `DataDomain<T>`: `{(id,o) | o ∈ γ(rel[id])} ∪ {(abs,v) | v ∈ γ(abs)}`, everything if `contains_top`.
//! * `Taint`: `Top ↦ {untainted}`, `Tainted ↦ {untainted, tainted}` (Top ⊑ Tainted).
//! * `DomainMap`: pointwise per key; a missing key means: `UnionMergeStrategy` no value (∅),
//!   `IntersectMergeStrategy` unconstrained, `MergeTopStrategy` the value domain's `top()`.
//! * `MemRegion<T>`: pointwise per cell `(offset,size)`; a missing cell is unconstrained; a cell
//!   of the merge is admissible iff the input holds a cell at the same offset and size that it
//!   contains, or the merged cell represents everything.

use crate::conv::*;
use crate::core::*;
use crate::pref::V;
use crate::prng::{mix, Rng};
use cwe_checker_lib::abstract_domain::*;
use cwe_checker_lib::analysis::taint::Taint;
use cwe_checker_lib::intermediate_representation::*;
use serde::Deserialize;
use serde_json::{json, Value};
use std::collections::{BTreeMap, BTreeSet};

pub fn info() -> CheckInfo {
    CheckInfo {
        id: "C03",
        rule: "real merge/merge_with of BitvectorDomain, IntervalDomain (hints+delays, widths 1/2/4/8/16), DataDomain<Interval|Bitvector>, Taint, DomainMap<u64,V,{Union,Intersect,MergeTop}> and MemRegion<V> executed on generated pairs and on merge chains ((a⊔b)⊔c…, incl. acc⊔(acc±c) loop-counter chains); an independent γ decides γ(a)∪γ(b)⊆γ(a⊔b), γ(a⊔a)=γ(a), γ(m⊔b)⊆γ(m), and γ(merge_with)=γ(merge); 1-byte sets are 256-bit member bitmaps; BitvectorDomain 1-byte, Taint and a 1-byte interval mini-universe are exhaustive over pairs. non-trivial = γ(a)≠γ(b) and the merge does not represent everything; distinct = hash of (domain kind, both input specs) resp. (chain spec, step)",
        assumptions: &[
            "γ of every domain is the one written in the module documentation (taken from the crate's doc comments and DESIGN.md C02/C03)",
            "interval inputs are well-formed (start<=s end, stride=0 iff start=end, stride | end-start); widening hints are only installed through the public update_widening_{lower,upper}_bound API or produced by the code itself in chains (reachable states); the delay is set via serde to {0, small, length, huge}",
            "both operands of a merge have the same byte size (the domains document different sizes as different posets); values stored under one map key / one memory cell offset+size have that size",
            "MemRegion inputs are built with insert_at_byte_index from non-overlapping cells; DomainMap<_, Taint, IntersectMergeStrategy> is not driven (the strategy documents that Top must be maximal)",
            "stability and merge_with agreement are judged on the represented set γ, not on structural equality (widening_delay and hints legitimately change)",
            "verdicts on the release profile (wrapping overflow in the widening threshold is documented behaviour)",
        ],
        run,
        replay,
    }
}

// ---------------------------------------------------------------------------
// Small numeric helpers (signed values of a width are carried as i128)

fn smin(w: u32) -> i128 {
    if w >= 16 {
        i128::MIN
    } else {
        -(1i128 << (8 * w - 1))
    }
}
fn smax(w: u32) -> i128 {
    if w >= 16 {
        i128::MAX
    } else {
        (1i128 << (8 * w - 1)) - 1
    }
}
fn bvs(x: i128, w: u32) -> Bitvector {
    to_bv(V::from_i(x, w))
}
fn sval(bv: &Bitvector) -> i128 {
    from_bv(bv).s()
}
fn clampw(x: i128, w: u32) -> i128 {
    x.clamp(smin(w), smax(w))
}
/// Unsigned distance `hi - lo` for `lo <= hi` (exact also for 16 bytes).
fn udist(lo: i128, hi: i128) -> u128 {
    (hi as u128).wrapping_sub(lo as u128)
}
fn uadd(x: i128, d: u128) -> i128 {
    (x as u128).wrapping_add(d) as i128
}

// ---------------------------------------------------------------------------
// Reference sets

/// The documented membership predicate of a strided interval.
fn str_member(start: i128, end: i128, stride: u128, x: i128) -> bool {
    if x < start || x > end {
        return false;
    }
    let d = udist(start, x);
    if stride == 0 {
        d == 0
    } else {
        d % stride == 0
    }
}

/// A set of w-byte values.
#[derive(Clone, Debug, PartialEq, Eq)]
enum RS {
    /// 1-byte sets by members: bit `x as u8` is set iff x is a member.
    Bits([u64; 4]),
    /// `start, start+stride, …, ≤ end` (signed); empty if `start > end`.
    Str { w: u32, start: i128, end: i128, stride: u128 },
}

impl RS {
    fn from_triple(w: u32, start: i128, end: i128, stride: u128) -> RS {
        if w == 1 {
            let mut bits = [0u64; 4];
            for x in -128i128..=127 {
                if str_member(start, end, stride, x) {
                    let i = (x as i8) as u8 as usize;
                    bits[i / 64] |= 1u64 << (i % 64);
                }
            }
            RS::Bits(bits)
        } else {
            RS::Str { w, start, end, stride }
        }
    }
    fn all(w: u32) -> RS {
        if w == 1 {
            RS::Bits([u64::MAX; 4])
        } else {
            RS::Str { w, start: smin(w), end: smax(w), stride: 1 }
        }
    }
    fn member(&self, x: i128) -> bool {
        match self {
            RS::Bits(b) => {
                if !(-128..=127).contains(&x) {
                    return false;
                }
                let i = (x as i8) as u8 as usize;
                b[i / 64] >> (i % 64) & 1 == 1
            }
            RS::Str { start, end, stride, .. } => str_member(*start, *end, *stride, x),
        }
    }
    fn is_all(&self) -> bool {
        match self {
            RS::Bits(b) => b.iter().all(|x| *x == u64::MAX),
            RS::Str { w, start, end, stride } => *start == smin(*w) && *end == smax(*w) && *stride == 1,
        }
    }
    /// For `Str`: a complete set of test members — `A ⊆ B` iff all of them are in `B`
    /// (first member, second member, last member: if the first two are in B then B's stride
    /// divides A's stride and A's residue class is B's; with the last one ≤ B.end all are in B).
    fn candidates(&self) -> Vec<i128> {
        match self {
            RS::Bits(b) => {
                let mut v = Vec::new();
                for i in 0..256usize {
                    if b[i / 64] >> (i % 64) & 1 == 1 {
                        v.push((i as u8 as i8) as i128);
                        if v.len() >= 4 {
                            break;
                        }
                    }
                }
                // also the largest member
                for i in (0..256usize).rev() {
                    if b[i / 64] >> (i % 64) & 1 == 1 {
                        v.push((i as u8 as i8) as i128);
                        break;
                    }
                }
                v
            }
            RS::Str { start, end, stride, .. } => {
                if start > end {
                    return Vec::new();
                }
                let mut v = vec![*start];
                if *stride > 0 {
                    let len = udist(*start, *end);
                    let q = len / *stride;
                    if q >= 1 {
                        v.push(uadd(*start, *stride));
                        v.push(uadd(*start, q * *stride));
                        if q >= 4 {
                            v.push(uadd(*start, (q / 2) * *stride));
                        }
                    }
                }
                v
            }
        }
    }
    /// A member of `self` that is not a member of `other` (None iff `self ⊆ other`).
    fn missing_in(&self, other: &RS) -> Option<i128> {
        match (self, other) {
            (RS::Bits(a), RS::Bits(b)) => {
                for k in 0..4 {
                    let d = a[k] & !b[k];
                    if d != 0 {
                        let i = k * 64 + d.trailing_zeros() as usize;
                        return Some((i as u8 as i8) as i128);
                    }
                }
                None
            }
            _ => self.candidates().into_iter().find(|x| !other.member(*x)),
        }
    }
}

/// Reference concretisation of any abstract value in scope.
#[derive(Clone, Debug, PartialEq)]
enum G {
    /// Every concrete value of the kind (unconstrained).
    Every,
    Sc(RS),
    /// `true` = may be tainted ({untainted, tainted}), `false` = {untainted}.
    Taint(bool),
    Data { top: bool, abs: Option<Box<G>>, rel: BTreeMap<u32, G> },
    /// Pointwise product: `default` = meaning of a missing key (None = no value at all);
    /// cells carry a size (0 for DomainMap entries).
    Map { default: Option<Box<G>>, cells: BTreeMap<i64, (u32, G)> },
}

/// A concrete element.
#[derive(Clone, Debug, PartialEq)]
enum W {
    Sc(i128),
    Taint(bool),
    Abs(Box<W>),
    Rel(u32, Box<W>),
    /// A value of completely unknown origin (only represented by "everything").
    Unknown,
    Cell(i64, u32, Box<W>),
}

impl G {
    fn is_everything(&self) -> bool {
        match self {
            G::Every => true,
            G::Sc(rs) => rs.is_all(),
            G::Taint(t) => *t,
            G::Data { top, .. } => *top,
            G::Map { default, cells } => {
                matches!(default, Some(d) if d.is_everything()) && cells.values().all(|(_, g)| g.is_everything())
            }
        }
    }
    fn member(&self, w: &W) -> bool {
        match (self, w) {
            (G::Every, _) => true,
            (G::Sc(rs), W::Sc(x)) => rs.member(*x),
            (G::Taint(may), W::Taint(t)) => !*t || *may,
            (G::Data { top, abs, .. }, W::Abs(x)) => *top || abs.as_ref().map_or(false, |g| g.member(x)),
            (G::Data { top, rel, .. }, W::Rel(i, x)) => *top || rel.get(i).map_or(false, |g| g.member(x)),
            (G::Data { top, .. }, W::Unknown) => *top,
            (G::Map { default, cells }, W::Cell(k, sz, x)) => match cells.get(k) {
                Some((s, g)) => {
                    if s == sz {
                        g.member(x)
                    } else {
                        g.is_everything()
                    }
                }
                None => match default {
                    None => false,
                    Some(d) => d.member(x),
                },
            },
            (g, W::Unknown) => g.is_everything(),
            _ => false,
        }
    }
    /// Some members (used as concrete witnesses in chains).
    fn some_members(&self) -> Vec<W> {
        match self {
            G::Every => vec![W::Unknown],
            G::Sc(rs) => rs.candidates().into_iter().map(W::Sc).collect(),
            G::Taint(may) => {
                if *may {
                    vec![W::Taint(false), W::Taint(true)]
                } else {
                    vec![W::Taint(false)]
                }
            }
            G::Data { top, abs, rel } => {
                let mut v = Vec::new();
                if *top {
                    v.push(W::Unknown);
                }
                if let Some(a) = abs {
                    v.extend(a.some_members().into_iter().map(|w| W::Abs(Box::new(w))));
                }
                for (i, g) in rel {
                    v.extend(g.some_members().into_iter().map(|w| W::Rel(*i, Box::new(w))));
                }
                v
            }
            G::Map { cells, .. } => {
                let mut v = Vec::new();
                for (k, (sz, g)) in cells {
                    v.extend(g.some_members().into_iter().take(3).map(|w| W::Cell(*k, *sz, Box::new(w))));
                }
                v
            }
        }
    }
    fn any_member(&self) -> Option<W> {
        self.some_members().into_iter().next()
    }
    /// An element of `self` that is not in `other`; `None` iff `γ(self) ⊆ γ(other)`.
    fn missing_in(&self, other: &G) -> Option<W> {
        match (self, other) {
            (_, G::Every) => None,
            (G::Every, o) => {
                if o.is_everything() {
                    None
                } else {
                    Some(W::Unknown)
                }
            }
            (G::Sc(a), G::Sc(b)) => a.missing_in(b).map(W::Sc),
            (G::Taint(a), G::Taint(b)) => {
                if *a && !*b {
                    Some(W::Taint(true))
                } else {
                    None
                }
            }
            (G::Data { top: ta, abs: aa, rel: ra }, G::Data { top: tb, abs: ab, rel: rb }) => {
                if *tb {
                    return None;
                }
                if *ta {
                    return Some(W::Unknown);
                }
                if let Some(x) = aa {
                    let miss = match ab {
                        Some(y) => x.missing_in(y),
                        None => x.any_member(),
                    };
                    if let Some(w) = miss {
                        return Some(W::Abs(Box::new(w)));
                    }
                }
                for (i, x) in ra {
                    let miss = match rb.get(i) {
                        Some(y) => x.missing_in(y),
                        None => x.any_member(),
                    };
                    if let Some(w) = miss {
                        return Some(W::Rel(*i, Box::new(w)));
                    }
                }
                None
            }
            (G::Map { default: da, cells: ca }, G::Map { default: db, cells: cb }) => {
                let keys: BTreeSet<i64> = ca.keys().chain(cb.keys()).cloned().collect();
                for k in keys {
                    match (ca.get(&k), cb.get(&k)) {
                        (Some((sa, ga)), Some((sb, gb))) => {
                            if sa != sb {
                                // `self` does not constrain the cell (k, sb) as such
                                if !gb.is_everything() {
                                    return Some(W::Cell(k, *sb, Box::new(W::Unknown)));
                                }
                            } else if let Some(w) = ga.missing_in(gb) {
                                return Some(W::Cell(k, *sa, Box::new(w)));
                            }
                        }
                        (Some((sa, ga)), None) => {
                            let miss = match db {
                                None => ga.any_member(),
                                Some(d) => ga.missing_in(d),
                            };
                            if let Some(w) = miss {
                                return Some(W::Cell(k, *sa, Box::new(w)));
                            }
                        }
                        (None, Some((sb, gb))) => {
                            if let Some(d) = da {
                                if let Some(w) = d.missing_in(gb) {
                                    return Some(W::Cell(k, *sb, Box::new(w)));
                                }
                            }
                        }
                        (None, None) => (),
                    }
                }
                None
            }
            // kinds never mix; if they do the oracle cannot decide — treat as "not included"
            _ => Some(W::Unknown),
        }
    }
}

// ---------------------------------------------------------------------------
// Input specifications (JSON-friendly, everything `replay` needs)

#[derive(Clone, Debug, PartialEq)]
enum Spec {
    /// Well-formed strided interval plus *proposed* hints (installed through the public API,
    /// which may round or reject them) and the delay counter.
    Iv { w: u32, start: i128, end: i128, stride: u64, lo: Option<i128>, hi: Option<i128>, delay: u64 },
    Bv { w: u32, val: Option<i128> },
    Taint { w: u32, tainted: bool },
    Data { w: u32, rel: Vec<(u32, Spec)>, abs: Option<Box<Spec>>, top: bool },
    /// DomainMap entries (key) or MemRegion cells (offset), in insertion order.
    Map(Vec<(i64, Spec)>),
}

fn istr(x: i128) -> Value {
    json!(x.to_string())
}
fn iparse(v: &Value) -> Option<i128> {
    v.as_str()?.parse::<i128>().ok()
}
fn oparse(v: &Value) -> Option<Option<i128>> {
    if v.is_null() {
        Some(None)
    } else {
        Some(Some(iparse(v)?))
    }
}

impl Spec {
    fn to_json(&self) -> Value {
        match self {
            Spec::Iv { w, start, end, stride, lo, hi, delay } => {
                json!({"iv":[w, istr(*start), istr(*end), stride, lo.map(istr), hi.map(istr), delay]})
            }
            Spec::Bv { w, val } => json!({"bv":[w, val.map(istr)]}),
            Spec::Taint { w, tainted } => json!({"taint":[w, tainted]}),
            Spec::Data { w, rel, abs, top } => json!({"data":{
                "w": w,
                "rel": rel.iter().map(|(i, s)| json!([i, s.to_json()])).collect::<Vec<_>>(),
                "abs": abs.as_ref().map(|s| s.to_json()),
                "top": top}}),
            Spec::Map(cells) => json!({"map": cells.iter().map(|(k, s)| json!([k, s.to_json()])).collect::<Vec<_>>()}),
        }
    }
    fn from_json(v: &Value) -> Option<Spec> {
        if let Some(a) = v.get("iv") {
            return Some(Spec::Iv {
                w: a.get(0)?.as_u64()? as u32,
                start: iparse(a.get(1)?)?,
                end: iparse(a.get(2)?)?,
                stride: a.get(3)?.as_u64()?,
                lo: oparse(a.get(4)?)?,
                hi: oparse(a.get(5)?)?,
                delay: a.get(6)?.as_u64()?,
            });
        }
        if let Some(a) = v.get("bv") {
            return Some(Spec::Bv { w: a.get(0)?.as_u64()? as u32, val: oparse(a.get(1)?)? });
        }
        if let Some(a) = v.get("taint") {
            return Some(Spec::Taint { w: a.get(0)?.as_u64()? as u32, tainted: a.get(1)?.as_bool()? });
        }
        if let Some(d) = v.get("data") {
            let mut rel = Vec::new();
            for e in d.get("rel")?.as_array()? {
                rel.push((e.get(0)?.as_u64()? as u32, Spec::from_json(e.get(1)?)?));
            }
            let abs = match d.get("abs")? {
                Value::Null => None,
                x => Some(Box::new(Spec::from_json(x)?)),
            };
            return Some(Spec::Data { w: d.get("w")?.as_u64()? as u32, rel, abs, top: d.get("top")?.as_bool()? });
        }
        if let Some(m) = v.get("map") {
            let mut cells = Vec::new();
            for e in m.as_array()? {
                cells.push((e.get(0)?.as_i64()?, Spec::from_json(e.get(1)?)?));
            }
            return Some(Spec::Map(cells));
        }
        None
    }
    /// Cheap structural fingerprint.
    fn fp(&self) -> u64 {
        fn h128(x: i128) -> u64 {
            (x as u64) ^ ((x >> 64) as u64).rotate_left(29)
        }
        match self {
            Spec::Iv { w, start, end, stride, lo, hi, delay } => {
                let mut h = mix(1, *w as u64);
                h = mix(h, h128(*start));
                h = mix(h, h128(*end));
                h = mix(h, *stride);
                h = mix(h, lo.map_or(0x55, h128));
                h = mix(h, hi.map_or(0xaa, h128));
                mix(h, *delay)
            }
            Spec::Bv { w, val } => mix(mix(2, *w as u64), val.map_or(0x77, h128)),
            Spec::Taint { w, tainted } => mix(mix(3, *w as u64), *tainted as u64),
            Spec::Data { w, rel, abs, top } => {
                let mut h = mix(mix(4, *w as u64), *top as u64);
                for (i, s) in rel {
                    h = mix(mix(h, *i as u64), s.fp());
                }
                mix(h, abs.as_ref().map_or(0x99, |s| s.fp()))
            }
            Spec::Map(cells) => {
                let mut h = 5;
                for (k, s) in cells {
                    h = mix(mix(h, *k as u64), s.fp());
                }
                h
            }
        }
    }
    /// Smallness measure for keeping the smallest witness per signature.
    fn size(&self) -> u64 {
        fn bits(x: i128) -> u64 {
            (128 - x.unsigned_abs().leading_zeros()) as u64
        }
        match self {
            Spec::Iv { w, start, end, stride, lo, hi, delay } => {
                *w as u64 + bits(*start) + bits(*end) + (64 - stride.leading_zeros()) as u64
                    + lo.map_or(0, |x| 8 + bits(x)) + hi.map_or(0, |x| 8 + bits(x)) + (64 - delay.leading_zeros()) as u64
            }
            Spec::Bv { w, val } => *w as u64 + val.map_or(1, bits),
            Spec::Taint { w, .. } => *w as u64,
            Spec::Data { rel, abs, top, .. } => {
                20 + *top as u64 + rel.iter().map(|(_, s)| 20 + s.size()).sum::<u64>() + abs.as_ref().map_or(0, |s| 10 + s.size())
            }
            Spec::Map(cells) => 20 + cells.iter().map(|(_, s)| 30 + s.size()).sum::<u64>(),
        }
    }
    /// Concrete elements that the *specification* says are represented (independent of the
    /// observation of the built value; used to cross-check the observer).
    fn witnesses(&self) -> Vec<W> {
        match self {
            Spec::Iv { start, end, stride, .. } => {
                let mut v = vec![W::Sc(*start), W::Sc(*end)];
                if *stride > 0 {
                    v.push(W::Sc(uadd(*start, *stride as u128)));
                    let q = udist(*start, *end) / *stride as u128;
                    v.push(W::Sc(uadd(*start, (q / 2) * *stride as u128)));
                }
                v
            }
            Spec::Bv { w, val } => match val {
                Some(x) => vec![W::Sc(*x)],
                None => vec![W::Sc(0), W::Sc(-1), W::Sc(smin(*w)), W::Sc(smax(*w) / 3)],
            },
            Spec::Taint { tainted, .. } => {
                if *tainted {
                    vec![W::Taint(false), W::Taint(true)]
                } else {
                    vec![W::Taint(false)]
                }
            }
            Spec::Data { rel, abs, top, .. } => {
                let mut v = Vec::new();
                if *top {
                    v.push(W::Unknown);
                }
                if let Some(a) = abs {
                    v.extend(a.witnesses().into_iter().map(|w| W::Abs(Box::new(w))));
                }
                for (i, s) in rel {
                    v.extend(s.witnesses().into_iter().map(|w| W::Rel(*i, Box::new(w))));
                }
                v
            }
            Spec::Map(cells) => {
                let mut v = Vec::new();
                for (k, s) in cells {
                    let sz = s.width();
                    v.extend(s.witnesses().into_iter().take(3).map(|w| W::Cell(*k, sz, Box::new(w))));
                }
                v
            }
        }
    }
    fn width(&self) -> u32 {
        match self {
            Spec::Iv { w, .. } | Spec::Bv { w, .. } | Spec::Taint { w, .. } | Spec::Data { w, .. } => *w,
            Spec::Map(_) => 0,
        }
    }
}

// ---------------------------------------------------------------------------
// The domains under test

/// A domain the monitor can build from a `Spec`, observe as a reference set and generate.
trait Dom: AbstractDomain + std::fmt::Debug + Sized {
    fn kind() -> String;
    fn build(s: &Spec) -> Option<Self>;
    /// Observation → reference concretisation. Reads the value only through serde or trivial
    /// accessors, never through merge.
    fn gamma(&self) -> G;
    /// γ of `Self::top()` as documented (used for MergeTopStrategy's missing keys).
    fn top_gamma() -> G {
        G::Every
    }
    fn gen(rng: &mut Rng, w: u32) -> Spec;
    /// A value related to `s` (so that merges are not always Top / disjoint).
    fn near(rng: &mut Rng, s: &Spec) -> Spec;
    /// `self (+|-) other` for chain steps of the form `acc ⊔ (acc ± c)`; None if unsupported.
    fn arith(&self, _sub: bool, _other: &Self) -> Option<Self> {
        None
    }
    /// Widths (bytes) at which pairs of this kind are generated.
    fn widths() -> &'static [u32];
}

// ---- BitvectorDomain

impl Dom for BitvectorDomain {
    fn kind() -> String {
        "bv".into()
    }
    fn build(s: &Spec) -> Option<Self> {
        match s {
            Spec::Bv { w, val: Some(x) } if (1..=16).contains(w) => Some(BitvectorDomain::Value(bvs(*x, *w))),
            Spec::Bv { w, val: None } if (1..=16).contains(w) => Some(BitvectorDomain::Top(bs(*w))),
            _ => None,
        }
    }
    fn gamma(&self) -> G {
        match self {
            BitvectorDomain::Top(sz) => G::Sc(RS::all(u64::from(*sz) as u32)),
            BitvectorDomain::Value(bv) => {
                let v = from_bv(bv);
                G::Sc(RS::from_triple(v.w, v.s(), v.s(), 0))
            }
        }
    }
    fn gen(rng: &mut Rng, w: u32) -> Spec {
        if rng.chance(1, 6) {
            Spec::Bv { w, val: None }
        } else {
            Spec::Bv { w, val: Some(V::new(rng.biased(w), w).s()) }
        }
    }
    fn near(rng: &mut Rng, s: &Spec) -> Spec {
        let w = s.width();
        match rng.below(3) {
            0 => s.clone(),
            1 => match s {
                Spec::Bv { val: Some(x), .. } => Spec::Bv { w, val: Some(clampw(x.saturating_add(rng.range_i64(-2, 2) as i128), w)) },
                _ => Self::gen(rng, w),
            },
            _ => Self::gen(rng, w),
        }
    }
    fn arith(&self, sub: bool, other: &Self) -> Option<Self> {
        Some(self.bin_op(if sub { BinOpType::IntSub } else { BinOpType::IntAdd }, other))
    }
    fn widths() -> &'static [u32] {
        &[2, 4, 8, 16]
    }
}

// ---- IntervalDomain

/// Mirror of the serde shape of `IntervalDomain` (private fields are observed through serde).
#[derive(Deserialize)]
struct IvMirror {
    interval: Interval,
    #[allow(dead_code)]
    widening_upper_bound: Option<Bitvector>,
    #[allow(dead_code)]
    widening_lower_bound: Option<Bitvector>,
    #[allow(dead_code)]
    widening_delay: u64,
}

fn observe_iv(d: &IntervalDomain) -> Option<IvMirror> {
    serde_json::from_value(serde_json::to_value(d).ok()?).ok()
}

/// Normalise a proposed triple to a well-formed one.
fn norm_iv(w: u32, s: i128, e: i128, stride: u64) -> (i128, i128, u64) {
    let (mut s, mut e) = (clampw(s, w), clampw(e, w));
    if s > e {
        std::mem::swap(&mut s, &mut e);
    }
    let len = udist(s, e);
    if len == 0 {
        return (s, s, 0);
    }
    let stride = (stride.max(1) as u128).min(len).min(u64::MAX as u128);
    let e = uadd(s, (len / stride) * stride);
    if e == s {
        (s, s, 0)
    } else {
        (s, e, stride as u64)
    }
}

fn iv_well_formed(w: u32, s: i128, e: i128, stride: u64) -> bool {
    (1..=16).contains(&w)
        && s >= smin(w)
        && e <= smax(w)
        && s <= e
        && ((stride == 0) == (s == e))
        && (stride == 0 || udist(s, e) % stride as u128 == 0)
}

fn gen_delay(rng: &mut Rng, len: u128) -> u64 {
    let l = len.min(u64::MAX as u128) as u64;
    match rng.below(10) {
        0..=3 => 0,
        4 => rng.below(10),
        5 => l,
        6 => l.saturating_sub(1),
        7 => l.saturating_add(rng.below(3)),
        8 => *rng.pick(&[u64::MAX, u64::MAX - 1, 1 << 63, 255, 256]),
        _ => rng.next_u64() >> rng.below(64),
    }
}

fn gen_hint(rng: &mut Rng, w: u32, anchor: i128, below: bool) -> Option<i128> {
    match rng.below(8) {
        0..=2 => None,
        3 | 4 => {
            let d = 1 + rng.below(16) as i128;
            Some(clampw(if below { anchor.saturating_sub(d) } else { anchor.saturating_add(d) }, w))
        }
        5 => {
            let d = 1 + (rng.next_u64() >> rng.below(64)) as i128;
            Some(clampw(if below { anchor.saturating_sub(d) } else { anchor.saturating_add(d) }, w))
        }
        6 => Some(if below { smin(w) } else { smax(w) }),
        _ => Some(V::new(rng.biased(w), w).s()), // possibly on the wrong side: the API must reject it
    }
}

fn dress_iv(rng: &mut Rng, w: u32, s: i128, e: i128, stride: u64) -> Spec {
    Spec::Iv { w, start: s, end: e, stride, lo: gen_hint(rng, w, s, true), hi: gen_hint(rng, w, e, false), delay: gen_delay(rng, udist(s, e)) }
}

fn gen_stride(rng: &mut Rng, len: u128) -> u64 {
    match rng.below(8) {
        0..=2 => 1,
        3 => 2 + rng.below(8),
        4 => 1u64 << rng.below(12),
        5 => (len / (1 + rng.below(4) as u128)).min(u64::MAX as u128) as u64,
        6 => len.min(u64::MAX as u128) as u64,
        _ => 1 + rng.below(300),
    }
}

impl Dom for IntervalDomain {
    fn kind() -> String {
        "iv".into()
    }
    fn build(s: &Spec) -> Option<Self> {
        match s {
            Spec::Iv { w, start, end, stride, lo, hi, delay } if iv_well_formed(*w, *start, *end, *stride) => {
                let mut d = IntervalDomain::from(Interval { start: bvs(*start, *w), end: bvs(*end, *w), stride: *stride });
                if let Some(x) = lo {
                    if *x < smin(*w) || *x > smax(*w) {
                        return None;
                    }
                    d.update_widening_lower_bound(&Some(bvs(*x, *w)));
                }
                if let Some(x) = hi {
                    if *x < smin(*w) || *x > smax(*w) {
                        return None;
                    }
                    d.update_widening_upper_bound(&Some(bvs(*x, *w)));
                }
                if *delay != 0 {
                    let mut j = serde_json::to_value(&d).ok()?;
                    j["widening_delay"] = json!(*delay);
                    d = serde_json::from_value(j).ok()?;
                }
                Some(d)
            }
            _ => None,
        }
    }
    fn gamma(&self) -> G {
        match observe_iv(self) {
            Some(m) => {
                let w = u64::from(m.interval.start.bytesize()) as u32;
                G::Sc(RS::from_triple(w, sval(&m.interval.start), sval(&m.interval.end), m.interval.stride as u128))
            }
            // cannot happen for a serialisable value; an empty set makes every inclusion fail loudly
            None => G::Sc(RS::Str { w: 2, start: 1, end: 0, stride: 1 }),
        }
    }
    fn gen(rng: &mut Rng, w: u32) -> Spec {
        if rng.chance(1, 24) {
            return dress_iv(rng, w, smin(w), smax(w), 1);
        }
        let s = V::new(rng.biased(w), w).s();
        let e = match rng.below(5) {
            0 | 1 => s.saturating_add(rng.below(24) as i128),
            2 => V::new(rng.biased(w), w).s(),
            3 => s,
            _ => s.saturating_add((rng.next_u64() >> rng.below(64)) as i128),
        };
        let (s0, e0) = (clampw(s.min(e), w), clampw(s.max(e), w));
        let stride = gen_stride(rng, udist(s0, e0));
        let (s, e, stride) = norm_iv(w, s0, e0, stride);
        dress_iv(rng, w, s, e, stride)
    }
    fn near(rng: &mut Rng, sp: &Spec) -> Spec {
        let Spec::Iv { w, start, end, stride, lo, hi, delay } = sp.clone() else {
            return sp.clone();
        };
        let st = stride.max(1) as i128;
        let k = 1 + rng.below(4) as i128;
        let small = rng.range_i64(-5, 5) as i128;
        let (s, e, sd) = match rng.below(9) {
            0 => (start, end, stride),
            1 => (start, end.saturating_add(k.saturating_mul(st)), stride),
            2 => (start.saturating_sub(k.saturating_mul(st)), end, stride),
            3 => (start.saturating_add(small), end.saturating_add(small), stride),
            4 => {
                // sub-interval on the same stride
                let q = udist(start, end) / st as u128;
                let i = rng.next_u128() % q.saturating_add(1).max(1);
                let j = rng.next_u128() % q.saturating_add(1).max(1);
                (uadd(start, i.min(j) * st as u128), uadd(start, i.max(j) * st as u128), stride.saturating_mul(1 + rng.below(3)))
            }
            5 => (start.saturating_sub(k.saturating_mul(st)), end.saturating_add(k.saturating_mul(st)), stride),
            6 => {
                let x = if rng.bool() { end.saturating_add(st) } else { start.saturating_sub(1 + rng.below(3) as i128) };
                (x, x, 0)
            }
            7 => (start.saturating_add(k.saturating_mul(st)), end.saturating_add(k.saturating_mul(st)), stride),
            _ => (start.saturating_add(small), end.saturating_add(rng.range_i64(-5, 5) as i128), gen_stride(rng, udist(start, end))),
        };
        let (s, e, sd) = norm_iv(w, s, e, sd);
        if rng.bool() {
            // keep the bookkeeping of the original (typical for two versions of one variable)
            Spec::Iv { w, start: s, end: e, stride: sd, lo, hi, delay }
        } else {
            dress_iv(rng, w, s, e, sd)
        }
    }
    fn arith(&self, sub: bool, other: &Self) -> Option<Self> {
        Some(self.bin_op(if sub { BinOpType::IntSub } else { BinOpType::IntAdd }, other))
    }
    fn widths() -> &'static [u32] {
        &[1, 1, 2, 4, 8, 8, 16]
    }
}

// ---- Taint

impl Dom for Taint {
    fn kind() -> String {
        "taint".into()
    }
    fn build(s: &Spec) -> Option<Self> {
        match s {
            Spec::Taint { w, tainted } if (1..=16).contains(w) => Some(if *tainted { Taint::Tainted(bs(*w)) } else { Taint::Top(bs(*w)) }),
            _ => None,
        }
    }
    fn gamma(&self) -> G {
        match self {
            Taint::Tainted(_) => G::Taint(true),
            Taint::Top(_) => G::Taint(false),
        }
    }
    fn top_gamma() -> G {
        G::Taint(false)
    }
    fn gen(rng: &mut Rng, w: u32) -> Spec {
        Spec::Taint { w, tainted: rng.bool() }
    }
    fn near(rng: &mut Rng, s: &Spec) -> Spec {
        Spec::Taint { w: s.width(), tainted: rng.bool() }
    }
    fn arith(&self, sub: bool, other: &Self) -> Option<Self> {
        Some(self.bin_op(if sub { BinOpType::IntSub } else { BinOpType::IntAdd }, other))
    }
    fn widths() -> &'static [u32] {
        &[1, 2, 4, 8]
    }
}

// ---- DataDomain<T>

fn ids() -> &'static Vec<AbstractIdentifier> {
    static IDS: std::sync::OnceLock<Vec<AbstractIdentifier>> = std::sync::OnceLock::new();
    IDS.get_or_init(|| {
        let var = |n: &str| Variable { name: n.to_string(), size: ByteSize::new(8), is_temp: false };
        vec![
            AbstractIdentifier::new(Tid::new("sub_main"), AbstractLocation::Register(var("RSP"))),
            AbstractIdentifier::new(Tid::new("call_malloc_1"), AbstractLocation::Register(var("RAX"))),
            AbstractIdentifier::new(Tid::new("sub_main"), AbstractLocation::from_stack_position(&var("RSP"), 16, ByteSize::new(8))),
        ]
    })
}

fn id_index(id: &AbstractIdentifier) -> u32 {
    match ids().iter().position(|x| x == id) {
        Some(i) => i as u32,
        None => 1000 + (crate::prng::hash_str(&format!("{id}")) % 1000) as u32,
    }
}

impl<T: Dom + RegisterDomain> Dom for DataDomain<T> {
    fn kind() -> String {
        format!("data_{}", T::kind())
    }
    fn build(s: &Spec) -> Option<Self> {
        match s {
            Spec::Data { w, rel, abs, top } if (1..=16).contains(w) => {
                let mut d = DataDomain::<T>::new_empty(bs(*w));
                let mut map = BTreeMap::new();
                for (i, os) in rel {
                    if os.width() != *w {
                        return None;
                    }
                    map.insert(ids().get(*i as usize)?.clone(), T::build(os)?);
                }
                d.set_relative_values(map);
                if let Some(a) = abs {
                    if a.width() != *w {
                        return None;
                    }
                    d.set_absolute_value(Some(T::build(a)?));
                }
                if *top {
                    d.set_contains_top_flag();
                }
                Some(d)
            }
            _ => None,
        }
    }
    fn gamma(&self) -> G {
        G::Data {
            top: self.contains_top(),
            abs: self.get_absolute_value().map(|v| Box::new(v.gamma())),
            rel: self.get_relative_values().iter().map(|(id, v)| (id_index(id), v.gamma())).collect(),
        }
    }
    fn gen(rng: &mut Rng, w: u32) -> Spec {
        let mut rel = Vec::new();
        for i in 0..3u32 {
            if rng.chance(2, 5) {
                rel.push((i, T::gen(rng, w)));
            }
        }
        let abs = if rng.chance(2, 5) { Some(Box::new(T::gen(rng, w))) } else { None };
        Spec::Data { w, rel, abs, top: rng.chance(1, 5) }
    }
    fn near(rng: &mut Rng, s: &Spec) -> Spec {
        let Spec::Data { w, rel, abs, top } = s.clone() else {
            return s.clone();
        };
        let mut nrel = Vec::new();
        for i in 0..3u32 {
            match rel.iter().find(|(j, _)| *j == i) {
                Some((_, os)) => match rng.below(6) {
                    0 => (),
                    1 | 2 => nrel.push((i, os.clone())),
                    _ => nrel.push((i, T::near(rng, os))),
                },
                None => {
                    if rng.chance(1, 4) {
                        nrel.push((i, T::gen(rng, w)));
                    }
                }
            }
        }
        let nabs = match &abs {
            Some(a) => match rng.below(5) {
                0 => None,
                1 => Some(a.clone()),
                _ => Some(Box::new(T::near(rng, a))),
            },
            None => {
                if rng.chance(1, 4) {
                    Some(Box::new(T::gen(rng, w)))
                } else {
                    None
                }
            }
        };
        let ntop = if rng.chance(1, 5) { !top } else { top };
        Spec::Data { w, rel: nrel, abs: nabs, top: ntop }
    }
    fn arith(&self, sub: bool, other: &Self) -> Option<Self> {
        Some(self.bin_op(if sub { BinOpType::IntSub } else { BinOpType::IntAdd }, other))
    }
    fn widths() -> &'static [u32] {
        &[1, 4, 8, 8]
    }
}

// ---- DomainMap<u64, V, S>

/// What a missing key means under a merge strategy (from the strategy's documentation).
trait Strat<V: AbstractDomain>: MapMergeStrategy<u64, V> + Clone + Eq + std::fmt::Debug {
    fn name() -> &'static str;
    fn missing(v_top: G) -> Option<G>;
}
impl<V: AbstractDomain> Strat<V> for UnionMergeStrategy {
    fn name() -> &'static str {
        "union"
    }
    /// "keys not present in the map have an implicit bottom value"
    fn missing(_v_top: G) -> Option<G> {
        None
    }
}
impl<V: AbstractDomain> Strat<V> for IntersectMergeStrategy {
    fn name() -> &'static str {
        "intersect"
    }
    /// "keys not present in the map have an implicit Top value" (maximal element)
    fn missing(_v_top: G) -> Option<G> {
        Some(G::Every)
    }
}
impl<V: AbstractDomain + HasTop> Strat<V> for MergeTopStrategy {
    fn name() -> &'static str {
        "mergetop"
    }
    /// "Top … interpreted as a default element assigned to all keys not present"
    fn missing(v_top: G) -> Option<G> {
        Some(v_top)
    }
}

/// Width of the values stored under a key (fixed per key so that merged values have equal sizes).
fn key_width(k: i64) -> u32 {
    [1, 8, 4, 8][(k as usize) % 4]
}

impl<V: Dom + HasTop, S: Strat<V>> Dom for DomainMap<u64, V, S> {
    fn kind() -> String {
        format!("map_{}_{}", S::name(), V::kind())
    }
    fn build(s: &Spec) -> Option<Self> {
        match s {
            Spec::Map(cells) => {
                let mut m = BTreeMap::new();
                for (k, vs) in cells {
                    if *k < 0 || vs.width() != key_width(*k) {
                        return None;
                    }
                    m.insert(*k as u64, V::build(vs)?);
                }
                Some(DomainMap::from(m))
            }
            _ => None,
        }
    }
    fn gamma(&self) -> G {
        G::Map {
            default: S::missing(V::top_gamma()).map(Box::new),
            cells: self.iter().map(|(k, v)| (*k as i64, (key_width(*k as i64), v.gamma()))).collect(),
        }
    }
    fn gen(rng: &mut Rng, _w: u32) -> Spec {
        let mut cells = Vec::new();
        for k in 0..4i64 {
            if rng.bool() {
                cells.push((k, V::gen(rng, key_width(k))));
            }
        }
        Spec::Map(cells)
    }
    fn near(rng: &mut Rng, s: &Spec) -> Spec {
        let Spec::Map(cells) = s else {
            return s.clone();
        };
        let mut out = Vec::new();
        for k in 0..4i64 {
            match cells.iter().find(|(j, _)| *j == k) {
                Some((_, vs)) => match rng.below(6) {
                    0 => (),
                    1 | 2 => out.push((k, vs.clone())),
                    _ => out.push((k, V::near(rng, vs))),
                },
                None => {
                    if rng.chance(1, 3) {
                        out.push((k, V::gen(rng, key_width(k))));
                    }
                }
            }
        }
        Spec::Map(out)
    }
    fn widths() -> &'static [u32] {
        &[0]
    }
}

// ---- MemRegion<V>

const REGION_LO: i64 = -8;
const REGION_HI: i64 = 32;

/// Keep a non-overlapping subset (first come first served by offset).
fn non_overlapping(mut cells: Vec<(i64, Spec)>) -> Vec<(i64, Spec)> {
    cells.sort_by_key(|(o, _)| *o);
    let mut out: Vec<(i64, Spec)> = Vec::new();
    let mut end = i64::MIN;
    for (o, s) in cells {
        if o >= end && o >= REGION_LO && o + s.width() as i64 <= REGION_HI {
            end = o + s.width() as i64;
            out.push((o, s));
        }
    }
    out
}

impl<V: Dom + SizedDomain + HasTop> Dom for MemRegion<V> {
    fn kind() -> String {
        format!("region_{}", V::kind())
    }
    fn build(s: &Spec) -> Option<Self> {
        match s {
            Spec::Map(cells) => {
                let mut r = MemRegion::<V>::new(ByteSize::new(8));
                let mut end = i64::MIN;
                let mut sorted = cells.clone();
                sorted.sort_by_key(|(o, _)| *o);
                for (o, vs) in &sorted {
                    let w = vs.width() as i64;
                    if *o < end || !(1..=16).contains(&w) || *o < -4096 || *o > 4096 {
                        return None; // overlapping or absurd cells are outside the input domain
                    }
                    end = *o + w;
                    r.insert_at_byte_index(V::build(vs)?, *o);
                }
                Some(r)
            }
            _ => None,
        }
    }
    fn gamma(&self) -> G {
        G::Map {
            default: Some(Box::new(G::Every)),
            cells: self.iter().map(|(o, v)| (*o, (u64::from(v.bytesize()) as u32, v.gamma()))).collect(),
        }
    }
    fn gen(rng: &mut Rng, _w: u32) -> Spec {
        let mut cells = Vec::new();
        let mut pos = REGION_LO;
        loop {
            pos += *rng.pick(&[0i64, 0, 0, 1, 2, 4, 8]);
            let size = *rng.pick(&[1u32, 2, 4, 8, 8]);
            if pos + size as i64 > REGION_HI {
                break;
            }
            if rng.chance(3, 5) {
                cells.push((pos, V::gen(rng, size)));
            }
            pos += size as i64;
        }
        Spec::Map(cells)
    }
    fn near(rng: &mut Rng, s: &Spec) -> Spec {
        let Spec::Map(cells) = s else {
            return s.clone();
        };
        let mut out = Vec::new();
        for (o, vs) in cells {
            match rng.below(12) {
                0 => (),
                1..=3 => out.push((*o, vs.clone())),
                4..=8 => out.push((*o, V::near(rng, vs))),
                9 => out.push((*o + *rng.pick(&[-4i64, -2, -1, 1, 2, 4]), vs.clone())),
                10 => {
                    let size = *rng.pick(&[1u32, 2, 4, 8]);
                    out.push((*o, V::gen(rng, size)));
                }
                _ => {
                    let size = *rng.pick(&[1u32, 2, 4, 8]);
                    let off = *o + *rng.pick(&[-1i64, 1, 4]);
                    out.push((off, V::gen(rng, size)));
                }
            }
        }
        for _ in 0..rng.below(3) {
            let size = *rng.pick(&[1u32, 2, 4, 8]);
            out.push((rng.range_i64(REGION_LO, REGION_HI - size as i64), V::gen(rng, size)));
        }
        Spec::Map(non_overlapping(out))
    }
    fn widths() -> &'static [u32] {
        &[0]
    }
}

// ---------------------------------------------------------------------------
// The oracle

struct Cx<'a> {
    /// coarse label used in signatures (`kind` or `kind:wN`)
    label: &'a str,
    case: &'a dyn Fn() -> Value,
    size: u64,
}

/// Demand `γ(sub) ⊆ γ(sup)`; report a concrete counter-element otherwise.
fn need(rep: &mut Report, cx: &Cx, sub: &G, sup: &G, what: &str, text: &str, show: &dyn Fn() -> String) -> bool {
    rep.eval();
    match sub.missing_in(sup) {
        None => true,
        Some(w) => {
            rep.violation(
                format!("{}:{what}", cx.label),
                None,
                format!("expected {text}; observed: element {w:?} is represented by the left side but not by the right side; {}", show()),
                (cx.case)(),
                cx.size,
            );
            false
        }
    }
}

/// All C03 checks for one pair of (already built) values. Returns the merge and its γ.
fn check_values<D: Dom>(a: &D, b: &D, ga: &G, gb: &G, cx: &Cx, rep: &mut Report) -> Option<(D, G)> {
    macro_rules! call {
        ($what:expr, $e:expr) => {
            match guard(|| $e) {
                Ok(v) => v,
                Err(p) => {
                    rep.eval();
                    rep.violation(
                        format!("{}:{}:panic:{}", cx.label, $what, panic_site(&p)),
                        None,
                        format!("{} panicked on same-size inputs inside the domain: {p}; a={a:?} b={b:?}", $what),
                        (cx.case)(),
                        cx.size,
                    );
                    return None;
                }
            }
        };
    }
    let m = call!("merge", a.merge(b));
    let gm = m.gamma();
    let show = || format!("a={a:?} b={b:?} a.merge(b)={m:?}");
    // (1) over-approximation
    need(rep, cx, ga, &gm, "not-over-approx", "γ(a) ⊆ γ(a.merge(b))", &show);
    need(rep, cx, gb, &gm, "not-over-approx", "γ(b) ⊆ γ(a.merge(b))", &show);
    // (2) merging a value with itself represents the same set
    let aa = call!("merge", a.merge(a));
    let gaa = aa.gamma();
    let show_aa = || format!("a={a:?} a.merge(a)={aa:?}");
    need(rep, cx, ga, &gaa, "self-merge-changes-set", "γ(a) ⊆ γ(a.merge(a))", &show_aa);
    need(rep, cx, &gaa, ga, "self-merge-changes-set", "γ(a.merge(a)) ⊆ γ(a)", &show_aa);
    let mm = call!("merge", m.merge(&m));
    let gmm = mm.gamma();
    let show_mm = || format!("m=a.merge(b)={m:?} (a={a:?} b={b:?}) m.merge(m)={mm:?}");
    need(rep, cx, &gm, &gmm, "self-merge-changes-set", "γ(m) ⊆ γ(m.merge(m))", &show_mm);
    need(rep, cx, &gmm, &gm, "self-merge-changes-set", "γ(m.merge(m)) ⊆ γ(m)", &show_mm);
    // (3) stability: merging m with something it already absorbed does not enlarge γ(m)
    let m2 = call!("merge", m.merge(b));
    let g2 = m2.gamma();
    need(rep, cx, &g2, &gm, "unstable", "γ(m.merge(b)) ⊆ γ(m) for m = a.merge(b)", &|| format!("a={a:?} b={b:?} m={m:?} m.merge(b)={m2:?}"));
    let m3 = call!("merge", m.merge(a));
    let g3 = m3.gamma();
    need(rep, cx, &g3, &gm, "unstable", "γ(m.merge(a)) ⊆ γ(m) for m = a.merge(b)", &|| format!("a={a:?} b={b:?} m={m:?} m.merge(a)={m3:?}"));
    if m2 != m || m3 != m {
        rep.obs("restabilise:structure-changes-but-set-does-not");
    }
    // (4) merge_with
    let mw = call!("merge_with", {
        let mut x = a.clone();
        x.merge_with(b);
        x
    });
    let gw = mw.gamma();
    let show_w = || format!("a={a:?} b={b:?} a.merge(b)={m:?} a.merge_with(b)={mw:?}");
    need(rep, cx, ga, &gw, "merge_with-not-over-approx", "γ(a) ⊆ γ(a.merge_with(b))", &show_w);
    need(rep, cx, gb, &gw, "merge_with-not-over-approx", "γ(b) ⊆ γ(a.merge_with(b))", &show_w);
    need(rep, cx, &gw, &gm, "merge_with-differs", "γ(a.merge_with(b)) ⊆ γ(a.merge(b))", &show_w);
    need(rep, cx, &gm, &gw, "merge_with-differs", "γ(a.merge(b)) ⊆ γ(a.merge_with(b))", &show_w);
    if mw != m {
        rep.obs("merge_with:structurally-different-from-merge");
    }
    let mw2 = call!("merge_with", {
        let mut x = m.clone();
        x.merge_with(b);
        x
    });
    let gw2 = mw2.gamma();
    need(rep, cx, &gw2, &gm, "merge_with-unstable", "γ(m.merge_with(b)) ⊆ γ(m) for m = a.merge(b)", &|| format!("a={a:?} b={b:?} m={m:?} m.merge_with(b)={mw2:?}"));
    let aw = call!("merge_with", {
        let mut x = a.clone();
        x.merge_with(a);
        x
    });
    let gaw = aw.gamma();
    let show_aw = || format!("a={a:?} a.merge_with(a)={aw:?}");
    need(rep, cx, ga, &gaw, "merge_with-self-changes-set", "γ(a) ⊆ γ(a.merge_with(a))", &show_aw);
    need(rep, cx, &gaw, ga, "merge_with-self-changes-set", "γ(a.merge_with(a)) ⊆ γ(a)", &show_aw);
    Some((m, gm))
}

fn label_of<D: Dom>(s: &Spec) -> String {
    match s.width() {
        0 => D::kind(),
        w => format!("{}:w{w}", D::kind()),
    }
}

/// Build a value from its spec and cross-check the observer against the spec's own witnesses.
fn build_checked<D: Dom>(s: &Spec, rep: &mut Report) -> Option<(D, G)> {
    let v = match guard(|| D::build(s)) {
        Ok(Some(v)) => v,
        Ok(None) => {
            rep.obs("skipped:spec-outside-input-domain");
            return None;
        }
        Err(p) => {
            // constructors / hint installers are not the subject of C03
            rep.inconclusive(&format!("build-panic:{}", panic_site(&p)));
            return None;
        }
    };
    let g = v.gamma();
    for w in s.witnesses() {
        if !g.member(&w) {
            rep.inconclusive("observer-mismatch:spec-witness-not-in-observed-set");
            rep.note(format!("observer mismatch for {s:?}: {w:?} not in {g:?}"));
            return None;
        }
    }
    Some((v, g))
}

fn rs_bounds(rs: &RS) -> Option<(i128, i128)> {
    match rs {
        RS::Bits(_) => {
            let lo = (-128i128..=127).find(|x| rs.member(*x))?;
            let hi = (-128i128..=127).rev().find(|x| rs.member(*x))?;
            Some((lo, hi))
        }
        RS::Str { start, end, .. } => {
            if start > end {
                None
            } else {
                Some((*start, *end))
            }
        }
    }
}

/// Path class of an interval merge (histogram only, not part of the verdict).
fn iv_class(ga: &G, gb: &G, gm: &G) -> &'static str {
    let (G::Sc(a), G::Sc(b), G::Sc(m)) = (ga, gb, gm) else {
        return "other";
    };
    if m.is_all() {
        return if a.is_all() || b.is_all() { "top-input" } else { "to-top" };
    }
    let (Some((al, ah)), Some((bl, bh)), Some((ml, mh))) = (rs_bounds(a), rs_bounds(b), rs_bounds(m)) else {
        return "empty";
    };
    match (ml < al.min(bl), mh > ah.max(bh)) {
        (true, true) => "widened-both",
        (true, false) => "widened-lower",
        (false, true) => "widened-upper",
        (false, false) => {
            if gm == ga || gm == gb {
                "contained"
            } else {
                "hull"
            }
        }
    }
}

fn pair_json(kind: &str, a: &Spec, b: &Spec) -> Value {
    json!({"kind": kind, "mode": "pair", "a": a.to_json(), "b": b.to_json()})
}

fn check_pair<D: Dom>(a_s: &Spec, b_s: &Spec, rep: &mut Report, track: bool) {
    let kind = D::kind();
    let label = label_of::<D>(a_s);
    let Some((a, ga)) = build_checked::<D>(a_s, rep) else { return };
    let Some((b, gb)) = build_checked::<D>(b_s, rep) else { return };
    let case = || pair_json(&kind, a_s, b_s);
    let cx = Cx { label: &label, case: &case, size: a_s.size() + b_s.size() };
    let Some((m, gm)) = check_values(&a, &b, &ga, &gb, &cx, rep) else { return };
    let nontrivial = ga != gb && !gm.is_everything();
    if nontrivial {
        rep.nontrivial(mix(mix(crate::prng::hash_str(&kind), a_s.fp()), b_s.fp()));
    }
    if track {
        if kind == "iv" {
            rep.obs(&format!("{label}:{}", iv_class(&ga, &gb, &gm)));
        } else {
            rep.obs(&format!("{label}:{}", if gm.is_everything() { "everything" } else if ga == gb { "equal-inputs" } else { "proper" }));
        }
        if nontrivial && rep.wants_sample() {
            rep.sample(json!({"case": case(), "merge": format!("{m:?}"), "gamma_of_merge": format!("{gm:?}").chars().take(300).collect::<String>(), "verdict": "all inclusions hold"}));
        }
    }
}

#[derive(Clone, Debug)]
enum Step {
    Fresh(Spec),
    /// next value = acc + build(spec)
    Add(Spec),
    /// next value = acc - build(spec)
    Sub(Spec),
}

impl Step {
    fn spec(&self) -> &Spec {
        match self {
            Step::Fresh(s) | Step::Add(s) | Step::Sub(s) => s,
        }
    }
    fn to_json(&self) -> Value {
        match self {
            Step::Fresh(s) => json!(["fresh", s.to_json()]),
            Step::Add(s) => json!(["add", s.to_json()]),
            Step::Sub(s) => json!(["sub", s.to_json()]),
        }
    }
    fn from_json(v: &Value) -> Option<Step> {
        let s = Spec::from_json(v.get(1)?)?;
        match v.get(0)?.as_str()? {
            "fresh" => Some(Step::Fresh(s)),
            "add" => Some(Step::Add(s)),
            "sub" => Some(Step::Sub(s)),
            _ => None,
        }
    }
    fn fp(&self) -> u64 {
        mix(
            match self {
                Step::Fresh(_) => 11,
                Step::Add(_) => 12,
                Step::Sub(_) => 13,
            },
            self.spec().fp(),
        )
    }
}

fn chain_json(kind: &str, steps: &[Step]) -> Value {
    json!({"kind": kind, "mode": "chain", "steps": steps.iter().map(|s| s.to_json()).collect::<Vec<_>>()})
}

/// Merge chain `((x0 ⊔ x1) ⊔ x2) …` the way a fixpoint uses merge. Every step is judged by the
/// pair oracle on the reachable state `(acc, x)`; in addition everything absorbed so far
/// (as sets and as concrete witnesses) must stay represented, and re-merging any absorbed
/// input must not enlarge the represented set.
fn check_chain<D: Dom>(steps: &[Step], rep: &mut Report, track: bool) {
    let kind = D::kind();
    let Some(Step::Fresh(s0)) = steps.first() else { return };
    let label = label_of::<D>(s0);
    let Some((mut acc, mut gacc)) = build_checked::<D>(s0, rep) else { return };
    let mut absorbed: Vec<(D, G, Vec<W>)> = vec![(acc.clone(), gacc.clone(), gacc.some_members())];
    let mut fp = mix(crate::prng::hash_str(&kind), steps[0].fp());
    for i in 1..steps.len() {
        let Some((operand, goperand)) = build_checked::<D>(steps[i].spec(), rep) else { return };
        let (x, gx) = match &steps[i] {
            Step::Fresh(_) => (operand, goperand),
            Step::Add(_) | Step::Sub(_) => {
                let sub = matches!(steps[i], Step::Sub(_));
                match guard(|| acc.arith(sub, &operand)) {
                    Ok(Some(x)) => {
                        let g = x.gamma();
                        (x, g)
                    }
                    Ok(None) => return,
                    Err(p) => {
                        rep.inconclusive(&format!("chain:arith-panic:{}", panic_site(&p)));
                        return;
                    }
                }
            }
        };
        fp = mix(fp, steps[i].fp());
        let case = || chain_json(&kind, &steps[..=i]);
        let size = 50 * (i as u64 + 1) + steps[..=i].iter().map(|s| s.spec().size()).sum::<u64>();
        let cx = Cx { label: &label, case: &case, size };
        let Some((m, gm)) = check_values(&acc, &x, &gacc, &gx, &cx, rep) else { return };
        absorbed.push((x.clone(), gx.clone(), gx.some_members()));
        for (j, (xj, gj, ws)) in absorbed.iter().enumerate() {
            let show = || format!("chain step {i}: input #{j} = {xj:?}; accumulated merge = {m:?}");
            need(rep, &cx, gj, &gm, "chain-lost-absorbed", "γ(x_j) ⊆ γ(((x0⊔x1)⊔…)⊔x_i) for every absorbed j ≤ i", &show);
            for w in ws {
                rep.eval();
                if !gm.member(w) {
                    rep.violation(
                        format!("{label}:chain-witness-lost"),
                        None,
                        format!("expected the concrete witness {w:?} of absorbed input #{j} ({xj:?}) to be represented after step {i}; observed accumulated merge {m:?}"),
                        case(),
                        size,
                    );
                }
            }
            match guard(|| m.merge(xj)) {
                Ok(r) => {
                    let gr = r.gamma();
                    need(rep, &cx, &gr, &gm, "chain-unstable", "γ(m.merge(x_j)) ⊆ γ(m) for every input x_j that m already absorbed", &|| {
                        format!("chain step {i}: m={m:?}, absorbed input #{j} = {xj:?}, m.merge(x_j)={r:?}")
                    });
                }
                Err(p) => {
                    rep.eval();
                    rep.violation(format!("{label}:merge:panic:{}", panic_site(&p)), None, format!("m.merge(x_j) panicked: {p}; m={m:?} x_j={xj:?}"), case(), size);
                }
            }
        }
        let nontrivial = gx != gacc && !gm.is_everything();
        if nontrivial {
            rep.nontrivial(fp);
        }
        if track {
            if kind == "iv" {
                rep.obs(&format!("chain:{label}:{}", iv_class(&gacc, &gx, &gm)));
            } else {
                rep.obs(&format!("chain:{label}:{}", if gm.is_everything() { "everything" } else { "proper" }));
            }
        }
        acc = m;
        gacc = gm;
    }
    if track {
        rep.obs(&format!("chain:{kind}:len{}", steps.len()));
    }
}

// ---------------------------------------------------------------------------
// Workload

type DataIv = DataDomain<IntervalDomain>;
type DataBv = DataDomain<BitvectorDomain>;

/// Call a generic function for the domain type named by `kind`.
macro_rules! dispatch {
    ($kind:expr, $f:ident, $($a:expr),*) => {
        match $kind {
            "bv" => { $f::<BitvectorDomain>($($a),*); true }
            "iv" => { $f::<IntervalDomain>($($a),*); true }
            "taint" => { $f::<Taint>($($a),*); true }
            "data_iv" => { $f::<DataIv>($($a),*); true }
            "data_bv" => { $f::<DataBv>($($a),*); true }
            "map_union_bv" => { $f::<DomainMap<u64, BitvectorDomain, UnionMergeStrategy>>($($a),*); true }
            "map_union_iv" => { $f::<DomainMap<u64, IntervalDomain, UnionMergeStrategy>>($($a),*); true }
            "map_union_data_iv" => { $f::<DomainMap<u64, DataIv, UnionMergeStrategy>>($($a),*); true }
            "map_union_taint" => { $f::<DomainMap<u64, Taint, UnionMergeStrategy>>($($a),*); true }
            "map_intersect_bv" => { $f::<DomainMap<u64, BitvectorDomain, IntersectMergeStrategy>>($($a),*); true }
            "map_intersect_iv" => { $f::<DomainMap<u64, IntervalDomain, IntersectMergeStrategy>>($($a),*); true }
            "map_intersect_data_iv" => { $f::<DomainMap<u64, DataIv, IntersectMergeStrategy>>($($a),*); true }
            "map_mergetop_bv" => { $f::<DomainMap<u64, BitvectorDomain, MergeTopStrategy>>($($a),*); true }
            "map_mergetop_iv" => { $f::<DomainMap<u64, IntervalDomain, MergeTopStrategy>>($($a),*); true }
            "map_mergetop_data_iv" => { $f::<DomainMap<u64, DataIv, MergeTopStrategy>>($($a),*); true }
            "map_mergetop_data_bv" => { $f::<DomainMap<u64, DataBv, MergeTopStrategy>>($($a),*); true }
            "map_mergetop_taint" => { $f::<DomainMap<u64, Taint, MergeTopStrategy>>($($a),*); true }
            "region_bv" => { $f::<MemRegion<BitvectorDomain>>($($a),*); true }
            "region_iv" => { $f::<MemRegion<IntervalDomain>>($($a),*); true }
            "region_data_iv" => { $f::<MemRegion<DataIv>>($($a),*); true }
            "region_taint" => { $f::<MemRegion<Taint>>($($a),*); true }
            _ => false,
        }
    };
}

/// (kind, relative weight of pair samples, relative weight of chains)
const KINDS: &[(&str, u64, u64)] = &[
    ("bv", 2, 1),
    ("iv", 24, 12),
    ("taint", 1, 1),
    ("data_iv", 8, 4),
    ("data_bv", 4, 2),
    ("map_union_bv", 2, 1),
    ("map_union_iv", 3, 1),
    ("map_union_data_iv", 2, 1),
    ("map_union_taint", 1, 1),
    ("map_intersect_bv", 2, 1),
    ("map_intersect_iv", 3, 1),
    ("map_intersect_data_iv", 2, 1),
    ("map_mergetop_bv", 2, 1),
    ("map_mergetop_iv", 3, 1),
    ("map_mergetop_data_iv", 2, 1),
    ("map_mergetop_data_bv", 2, 1),
    ("map_mergetop_taint", 1, 1),
    ("region_bv", 3, 1),
    ("region_iv", 4, 2),
    ("region_data_iv", 3, 1),
    ("region_taint", 1, 1),
];

fn run_pairs<D: Dom>(n: u64, rng: &mut Rng, rep: &mut Report) {
    for _ in 0..n {
        let w = *rng.pick(D::widths());
        let a = D::gen(rng, w);
        let b = if rng.chance(3, 5) { D::near(rng, &a) } else { D::gen(rng, w) };
        if rng.bool() {
            check_pair::<D>(&a, &b, rep, true);
        } else {
            check_pair::<D>(&b, &a, rep, true);
        }
    }
}

/// A small constant operand of the same kind and width as `s` (for `acc ± c` chain steps).
fn small_const(rng: &mut Rng, s: &Spec) -> Option<Spec> {
    let w = s.width();
    let c = match rng.below(4) {
        0 => 1,
        1 => 1 + rng.below(8) as i128,
        2 => *rng.pick(&[2i128, 4, 8, 16]),
        _ => rng.range_i64(-4, 40) as i128,
    };
    let c = clampw(c, w);
    match s {
        Spec::Iv { .. } => {
            if rng.chance(1, 5) {
                let (s0, e0, st) = norm_iv(w, 0, c.abs(), 1 + rng.below(2));
                Some(Spec::Iv { w, start: s0, end: e0, stride: st, lo: None, hi: None, delay: 0 })
            } else {
                Some(Spec::Iv { w, start: c, end: c, stride: 0, lo: None, hi: None, delay: 0 })
            }
        }
        Spec::Bv { .. } => Some(Spec::Bv { w, val: Some(c) }),
        Spec::Taint { .. } => Some(Spec::Taint { w, tainted: rng.chance(1, 4) }),
        Spec::Data { abs, rel, .. } => {
            // pointer arithmetic: an absolute constant of the offset domain
            let proto = abs.as_deref().or_else(|| rel.first().map(|(_, s)| s));
            let inner = match proto {
                Some(p) => small_const(rng, p)?,
                None => return None,
            };
            Some(Spec::Data { w, rel: vec![], abs: Some(Box::new(inner)), top: false })
        }
        Spec::Map(_) => None,
    }
}

fn gen_chain<D: Dom>(rng: &mut Rng, max_len: usize) -> Vec<Step> {
    let w = *rng.pick(D::widths());
    let len = rng.range_usize(3, max_len);
    let first = D::gen(rng, w);
    let mut steps = vec![Step::Fresh(first.clone())];
    let mut last = first.clone();
    // a chain is either "loop-like" (mostly acc ± c) or "join-like" (mostly related fresh values)
    let loop_like = rng.chance(2, 5);
    let fixed_const = small_const(rng, &first);
    for _ in 1..len {
        let arith = if loop_like { rng.chance(4, 5) } else { rng.chance(1, 6) };
        if arith {
            let c = if rng.chance(2, 3) { fixed_const.clone() } else { small_const(rng, &first) };
            if let Some(c) = c {
                steps.push(if rng.chance(4, 5) { Step::Add(c) } else { Step::Sub(c) });
                continue;
            }
        }
        let s = match rng.below(8) {
            0 => D::gen(rng, w),
            1 | 2 => D::near(rng, &first),
            _ => D::near(rng, &last),
        };
        last = s.clone();
        steps.push(Step::Fresh(s));
    }
    steps
}

fn run_chains<D: Dom>(n: u64, max_len: usize, rng: &mut Rng, rep: &mut Report) {
    for _ in 0..n {
        let steps = gen_chain::<D>(rng, max_len);
        check_chain::<D>(&steps, rep, true);
    }
}

/// The 1-byte interval mini-universe: every well-formed (start,end,stride) over the value list.
fn mini_universe(vals: &[i128]) -> Vec<(i128, i128, u64)> {
    let mut out = Vec::new();
    for (i, s) in vals.iter().enumerate() {
        for e in &vals[i..] {
            if s == e {
                out.push((*s, *e, 0));
            } else {
                let len = (e - s) as u64;
                for d in 1..=len {
                    if len % d == 0 {
                        out.push((*s, *e, d));
                    }
                }
            }
        }
    }
    out
}

fn mini_values(tier: Tier) -> Vec<i128> {
    match tier {
        Tier::Quick => vec![-128, -127, -126, -124, -120, -64, -3, -2, -1, 0, 1, 2, 3, 4, 63, 119, 123, 125, 126, 127],
        Tier::Thorough => {
            let mut v: Vec<i128> = (-128..=-121).collect();
            v.extend(-4..=4);
            v.extend([-64, -33, 31, 63, 64]);
            v.extend(120..=127);
            v.sort();
            v
        }
    }
}

/// Harness self-test: the symbolic inclusion test for strided intervals (used for widths ≥ 2)
/// must agree with the member-by-member bitmap inclusion on 1-byte triples (well-formed or not).
fn oracle_selfcheck(rng: &mut Rng, n: u64, rep: &mut Report) {
    for _ in 0..n {
        let mut t = || {
            let s = rng.range_i64(-128, 127) as i128;
            let e = if rng.chance(1, 8) { rng.range_i64(-128, 127) as i128 } else { (s + rng.below(80) as i128).min(127) };
            let st = *rng.pick(&[0u128, 1, 1, 2, 3, 4, 5, 6, 8, 16, 64, 127, 255]);
            (s, e, st)
        };
        let (a, b) = (t(), t());
        let by_members = RS::from_triple(1, a.0, a.1, a.2).missing_in(&RS::from_triple(1, b.0, b.1, b.2)).is_none();
        let symbolic = RS::Str { w: 1, start: a.0, end: a.1, stride: a.2 }.missing_in(&RS::Str { w: 1, start: b.0, end: b.1, stride: b.2 }).is_none();
        if by_members != symbolic {
            rep.inconclusive("oracle-selfcheck:symbolic-inclusion-disagrees-with-members");
            rep.note(format!("oracle self-check failed for {a:?} ⊆ {b:?}: members say {by_members}, symbolic says {symbolic}"));
        }
    }
    rep.obs_n("oracle-selfcheck:pairs", n);
}

/// Deterministic probe: chains of strided intervals whose starts move down by one stride per
/// step (every step is absorbed without widening because the new value contains the old one),
/// for strides around 2^63/2^64 and widths 8 and 16. After two steps the distance between the
/// accumulated start and the first input no longer fits 64 bits at width 16.
fn wide_stride_probe(rep: &mut Report) {
    let strides: [u64; 4] = [1 << 63, u64::MAX, (1 << 63) + 2, 3 << 61];
    for w in [8u32, 16] {
        for k in strides {
            for base in [0i128, 129, -5] {
                for n_steps in 3..=4usize {
                    let kk = k as i128;
                    let end = base + kk;
                    if end > smax(w) || base - (n_steps as i128) * kk < smin(w) {
                        continue;
                    }
                    let steps: Vec<Step> = (0..n_steps)
                        .map(|i| Step::Fresh(Spec::Iv { w, start: base - (i as i128) * kk, end, stride: k, lo: None, hi: None, delay: 0 }))
                        .collect();
                    check_chain::<IntervalDomain>(&steps, rep, true);
                }
            }
        }
    }
    rep.obs("wide-stride-probe");
}

#[derive(Clone, Debug)]
enum Task {
    WideStrideProbe,
    SelfCheck,
    BvExhaustive,
    TaintExhaustive,
    /// a-indices `i ≡ chunk (mod chunks)` of the mini-universe × all b
    IvMini { chunk: usize, chunks: usize },
    Pairs { kind: &'static str, n: u64 },
    Chains { kind: &'static str, n: u64 },
}

fn run_task(task: &Task, cfg: &Cfg, rng: &mut Rng, rep: &mut Report) {
    match task {
        Task::WideStrideProbe => wide_stride_probe(rep),
        Task::SelfCheck => oracle_selfcheck(rng, 200_000, rep),
        Task::BvExhaustive => {
            let all: Vec<Spec> = std::iter::once(Spec::Bv { w: 1, val: None }).chain((-128i128..=127).map(|x| Spec::Bv { w: 1, val: Some(x) })).collect();
            for (i, a) in all.iter().enumerate() {
                for (j, b) in all.iter().enumerate() {
                    check_pair::<BitvectorDomain>(a, b, rep, (i + j) % 64 == 0);
                }
            }
            rep.exhaustive_parts.push("all pairs of 1-byte BitvectorDomain values (Top + 256 values)".into());
        }
        Task::TaintExhaustive => {
            for w in [1u32, 2, 4, 8] {
                for a in [false, true] {
                    for b in [false, true] {
                        check_pair::<Taint>(&Spec::Taint { w, tainted: a }, &Spec::Taint { w, tainted: b }, rep, true);
                    }
                }
            }
            rep.exhaustive_parts.push("all pairs of Taint values for sizes 1/2/4/8".into());
        }
        Task::IvMini { chunk, chunks } => {
            let vals = mini_values(cfg.tier);
            let uni = mini_universe(&vals);
            let pick4 = |h: u64, opts: [Option<i128>; 4]| opts[(h & 3) as usize].map(|x| clampw(x, 1));
            for (i, a) in uni.iter().enumerate() {
                if i % chunks != *chunk {
                    continue;
                }
                for (j, b) in uni.iter().enumerate() {
                    // configuration A: no hints, delay above every 1-byte length ⇒ the plain strided hull
                    let a1 = Spec::Iv { w: 1, start: a.0, end: a.1, stride: a.2, lo: None, hi: None, delay: 255 };
                    let b1 = Spec::Iv { w: 1, start: b.0, end: b.1, stride: b.2, lo: None, hi: None, delay: 255 };
                    check_pair::<IntervalDomain>(&a1, &b1, rep, (i + j) % 97 == 0);
                    // configuration B: hints and small delays derived from the pair index ⇒ widening paths
                    let h = mix(i as u64, j as u64);
                    let la = (a.1 - a.0) as u64;
                    let lb = (b.1 - b.0) as u64;
                    let a2 = Spec::Iv {
                        w: 1,
                        start: a.0,
                        end: a.1,
                        stride: a.2,
                        lo: pick4(h, [None, Some(a.0 - 1), Some(a.0 - 8), Some(-128)]),
                        hi: pick4(h >> 2, [None, Some(a.1 + 1), Some(a.1 + 7), Some(127)]),
                        delay: [0, 1, 3, la][(h >> 4 & 3) as usize],
                    };
                    let b2 = Spec::Iv {
                        w: 1,
                        start: b.0,
                        end: b.1,
                        stride: b.2,
                        lo: pick4(h >> 6, [None, Some(b.0 - 1), Some(b.0 - 5), Some(-100)]),
                        hi: pick4(h >> 8, [None, Some(b.1 + 1), Some(b.1 + 9), Some(100)]),
                        delay: [0, 0, 2, lb][(h >> 10 & 3) as usize],
                    };
                    check_pair::<IntervalDomain>(&a2, &b2, rep, (i + j) % 97 == 1);
                }
            }
            if *chunk == 0 {
                rep.exhaustive_parts.push(format!(
                    "all ordered pairs of the 1-byte interval mini-universe ({} intervals = every well-formed (start,end,stride) over {} boundary values), each with (no hints, no widening) and (index-derived hints and delays), γ by all 256 members",
                    uni.len(),
                    vals.len()
                ));
            }
        }
        Task::Pairs { kind, n } => {
            if !dispatch!(*kind, run_pairs, *n, rng, rep) {
                rep.note(format!("unknown kind {kind}"));
            }
        }
        Task::Chains { kind, n } => {
            let max_len = cfg.tier.pick(6usize, 9usize);
            if !dispatch!(*kind, run_chains, *n, max_len, rng, rep) {
                rep.note(format!("unknown kind {kind}"));
            }
        }
    }
}

fn run(cfg: &Cfg) -> Report {
    let mut tasks = vec![Task::WideStrideProbe, Task::SelfCheck, Task::BvExhaustive, Task::TaintExhaustive];
    let chunks = 48;
    for chunk in 0..chunks {
        tasks.push(Task::IvMini { chunk, chunks });
    }
    // sampled part: `unit` pair samples per weight unit, split in shards of bounded size
    let unit = cfg.tier.pick(8_000u64, 200_000u64);
    let chain_unit = cfg.tier.pick(1_600u64, 40_000u64);
    let shard = cfg.tier.pick(3_000u64, 15_000u64);
    for (kind, wp, wc) in KINDS {
        let mut left = unit * wp;
        while left > 0 {
            let n = left.min(shard);
            tasks.push(Task::Pairs { kind, n });
            left -= n;
        }
        let mut left = chain_unit * wc;
        while left > 0 {
            let n = left.min(shard / 4);
            tasks.push(Task::Chains { kind, n });
            left -= n;
        }
    }
    // interleave heavy and light shards deterministically
    let mut order: Vec<usize> = (0..tasks.len()).collect();
    Rng::derive(0xC03, "task-order", 0).shuffle(&mut order);
    let tasks: Vec<Task> = order.into_iter().map(|i| tasks[i].clone()).collect();
    par_shards(cfg, "c03", tasks.len(), |idx, rng, rep| run_task(&tasks[idx], cfg, rng, rep))
}

fn replay_pair<D: Dom>(a: &Spec, b: &Spec, rep: &mut Report) {
    check_pair::<D>(a, b, rep, true);
}
fn replay_chain<D: Dom>(steps: &[Step], rep: &mut Report) {
    check_chain::<D>(steps, rep, true);
}

fn replay(_cfg: &Cfg, case: &Value) -> Report {
    let mut rep = Report::new();
    let kind = case["kind"].as_str().unwrap_or("").to_string();
    match case["mode"].as_str().unwrap_or("") {
        "pair" => match (Spec::from_json(&case["a"]), Spec::from_json(&case["b"])) {
            (Some(a), Some(b)) => {
                if !dispatch!(kind.as_str(), replay_pair, &a, &b, &mut rep) {
                    rep.note("unknown kind in replay case");
                }
            }
            _ => rep.note("unparsable pair case"),
        },
        "chain" => {
            let steps: Option<Vec<Step>> = case["steps"].as_array().map(|v| v.iter().map(Step::from_json).collect()).unwrap_or(None);
            match steps {
                Some(steps) => {
                    if !dispatch!(kind.as_str(), replay_chain, &steps, &mut rep) {
                        rep.note("unknown kind in replay case");
                    }
                }
                None => rep.note("unparsable chain case"),
            }
        }
        _ => rep.note("unknown replay case mode"),
    }
    rep
}
