//! C02 — interval transfer functions are sound and produce well-formed intervals.
//!
//! Monitor shape: the real `IntervalDomain::{bin_op,un_op,cast,subpiece}` is executed on
//! generated abstract inputs; the concretisation γ of inputs and result is computed by the
//! harness from the serialised fields and every concrete image (computed by `pref`) of
//! members of the inputs must be a member of the result. Every produced interval is
//! checked for well-formedness.

use crate::conv::*;
use crate::core::*;
use crate::pref::{self, V};
use crate::prng::{mix, Rng};
use cwe_checker_lib::abstract_domain::{
    AbstractDomain, Interval, IntervalDomain, RegisterDomain, SpecializeByConditional,
};
use cwe_checker_lib::intermediate_representation::*;
use serde_json::{json, Value};

pub fn info() -> CheckInfo {
    CheckInfo {
        id: "C02",
        rule: "IntervalDomain::{bin_op,un_op,cast,subpiece} executed next to the P-Code reference `pref`: gamma(x) = {start,start+stride,..,end} read from the serialised fields; every image of members must be in gamma(result) and every result must be well-formed (start<=end signed, end on stride, stride 0 iff singleton, width). 1-byte universe U1 (all well-formed (start,end,stride)): unary ops/casts/subpieces on all of U1 with all members (plain and with widening hints), binary ops on boundary-biased pairs of U1 with all members of both; widths 2/4/8 and mixed-width piece/shift: sampled intervals with sampled members; witness-shadowed chains of length <= 8. non-trivial = result not Top and at least one input not a singleton; distinct = hash of (operation, input intervals)",
        assumptions: &[
            "pref (harness/vmon/src/pref.rs) is a correct transcription of the P-Code reference manual",
            "gamma is read from the serde form of IntervalDomain ({interval:{start,end,stride},widening_*}); widening hints and delay do not change gamma",
            "domain guards (asserted by the code): equal operand widths except piece/shift; BOOL_* and BoolNegate only on 1-byte values within {0,1}; ZEXT/SEXT only to sizes >= source; piece result <= 16 bytes; shift amount operand <= 8 bytes wide; subpiece low+size <= width",
            "inputs with widening hints are built through the public API (update_widening_*_bound) so only reachable states are fed; the delay is set through serde",
            "division/remainder by zero and operations unsupported by the reference impose no membership requirement (well-formedness still checked)",
            "verdicts on the release profile",
        ],
        run,
        replay,
    }
}

// ---------------------------------------------------------------------------
// Observed intervals and gamma

pub fn smin(w: u32) -> i128 {
    if w >= 16 {
        i128::MIN
    } else {
        -(1i128 << (8 * w - 1))
    }
}
pub fn smax(w: u32) -> i128 {
    if w >= 16 {
        i128::MAX
    } else {
        (1i128 << (8 * w - 1)) - 1
    }
}

/// A strided interval as the harness sees it (signed bounds, width in bytes).
#[derive(Clone, Copy, Debug, PartialEq, Eq, Hash)]
pub struct Iv {
    pub s: i128,
    pub e: i128,
    pub stride: u64,
    pub w: u32,
}

pub const FULL: [u64; 4] = [u64::MAX; 4];

impl Iv {
    pub fn single(x: i128, w: u32) -> Iv {
        Iv { s: x, e: x, stride: 0, w }
    }
    pub fn top(w: u32) -> Iv {
        Iv { s: smin(w), e: smax(w), stride: 1, w }
    }
    pub fn is_top(&self) -> bool {
        self.s == smin(self.w) && self.e == smax(self.w) && self.stride == 1
    }
    pub fn is_single(&self) -> bool {
        self.s == self.e
    }
    /// end - start as an unsigned number (only meaningful if s <= e).
    pub fn span(&self) -> u128 {
        (self.e as u128).wrapping_sub(self.s as u128)
    }
    /// Index of the last member (members are k = 0..=steps).
    pub fn steps(&self) -> u128 {
        if self.stride == 0 {
            0
        } else {
            self.span() / self.stride as u128
        }
    }
    pub fn wf(&self) -> bool {
        self.s <= self.e
            && ((self.stride == 0) == (self.s == self.e))
            && (self.stride == 0 || self.span() % self.stride as u128 == 0)
            && self.s >= smin(self.w)
            && self.e <= smax(self.w)
    }
    pub fn member(&self, k: u128) -> V {
        let off = k.wrapping_mul(self.stride as u128);
        V::new((self.s as u128).wrapping_add(off), self.w)
    }
    /// Membership in gamma = {start, start+stride, .., end}.
    pub fn contains(&self, v: V) -> bool {
        if v.w != self.w {
            return false;
        }
        let x = v.s();
        if x < self.s || x > self.e {
            return false;
        }
        let d = (x as u128).wrapping_sub(self.s as u128);
        if self.stride == 0 {
            d == 0
        } else {
            d % self.stride as u128 == 0
        }
    }
    /// gamma as a bitmap over the unsigned byte value (1-byte intervals only).
    pub fn bitmap(&self) -> [u64; 4] {
        debug_assert!(self.w == 1);
        let mut bm = [0u64; 4];
        let mut x = self.s;
        while x <= self.e {
            let u = (x as u8) as usize;
            bm[u >> 6] |= 1u64 << (u & 63);
            if self.stride == 0 {
                break;
            }
            x += self.stride as i128;
        }
        bm
    }
    /// All members (as unsigned bytes) of a 1-byte interval, in signed order.
    pub fn members_u8(&self) -> Vec<u8> {
        let mut v = Vec::new();
        let mut x = self.s;
        while x <= self.e {
            v.push(x as u8);
            if self.stride == 0 {
                break;
            }
            x += self.stride as i128;
        }
        v
    }
    /// All members if there are at most `cap` of them.
    pub fn all_members(&self, cap: u128) -> Option<Vec<V>> {
        let n = self.steps();
        if n >= cap {
            return None;
        }
        Some((0..=n).map(|k| self.member(k)).collect())
    }
    /// A deterministic selection of members: ends, ends +- stride, middle.
    pub fn std_members(&self) -> Vec<V> {
        let n = self.steps();
        let mut ks = vec![0, n];
        if n >= 2 {
            ks.extend_from_slice(&[1, n - 1, n / 2]);
        }
        let mut out: Vec<V> = Vec::new();
        for k in ks {
            let m = self.member(k);
            if !out.contains(&m) {
                out.push(m);
            }
        }
        out
    }
    pub fn fp(&self) -> u64 {
        let a = mix(self.s as u64, (self.s >> 64) as u64 ^ 0x51);
        let b = mix(self.e as u64, (self.e >> 64) as u64 ^ 0x52);
        mix(mix(a, b), mix(self.stride, self.w as u64))
    }
    pub fn show(&self) -> String {
        format!("[{}, {}] stride {} ({} byte)", self.s, self.e, self.stride, self.w)
    }
    /// Smallness measure for violation minimisation.
    pub fn size(&self) -> u64 {
        let bl = |x: i128| (128 - x.unsigned_abs().leading_zeros()) as u64;
        bl(self.s) + bl(self.e) + (64 - self.stride.leading_zeros()) as u64 + 2 * self.w as u64
    }
}

#[inline]
pub fn bm_test(bm: &[u64; 4], u: usize) -> bool {
    (bm[u >> 6] >> (u & 63)) & 1 == 1
}

/// Everything observable of an `IntervalDomain` (read from its serde form).
#[derive(Clone, Debug)]
pub struct Obs {
    pub iv: Iv,
    /// width of the `end` bitvector (must equal `iv.w`)
    pub end_w: u32,
    pub lo: Option<V>,
    pub hi: Option<V>,
    pub delay: u64,
}

fn parse_bv(j: &Value) -> Result<V, String> {
    let bits = match &j["width"] {
        Value::Array(a) => a.first().and_then(|x| x.as_u64()),
        x => x.as_u64(),
    }
    .ok_or_else(|| format!("no width in {j}"))?;
    if bits == 0 || bits % 8 != 0 || bits > 128 {
        return Err(format!("bit width {bits} is not a whole number of bytes <= 16"));
    }
    let digits = j["digits"].as_array().ok_or_else(|| format!("no digits in {j}"))?;
    let mut v: u128 = 0;
    for (i, d) in digits.iter().enumerate() {
        let d = d.as_u64().ok_or("digit not u64")? as u128;
        if i < 2 {
            v |= d << (64 * i);
        } else if d != 0 {
            return Err("more than 128 bits of digits".into());
        }
    }
    Ok(V::new(v, (bits / 8) as u32))
}

fn parse_opt_bv(j: &Value) -> Result<Option<V>, String> {
    if j.is_null() {
        Ok(None)
    } else {
        parse_bv(j).map(Some)
    }
}

pub fn observe(d: &IntervalDomain) -> Result<Obs, String> {
    let j = serde_json::to_value(d).map_err(|e| e.to_string())?;
    let s = parse_bv(&j["interval"]["start"])?;
    let e = parse_bv(&j["interval"]["end"])?;
    let stride = j["interval"]["stride"].as_u64().ok_or("no stride")?;
    Ok(Obs {
        iv: Iv { s: s.s(), e: e.s(), stride, w: s.w },
        end_w: e.w,
        // NB: the serde names are taken literally; gamma does not depend on them.
        hi: parse_opt_bv(&j["widening_upper_bound"])?,
        lo: parse_opt_bv(&j["widening_lower_bound"])?,
        delay: j["widening_delay"].as_u64().ok_or("no delay")?,
    })
}

/// The well-formedness predicate of the property. `None` = well-formed.
pub fn wf_error(o: &Obs, exp_w: Option<u32>) -> Option<(&'static str, String)> {
    let iv = &o.iv;
    if o.end_w != iv.w {
        return Some(("bound-widths", format!("start has {} bytes, end has {} bytes", iv.w, o.end_w)));
    }
    if let Some(w) = exp_w {
        if iv.w != w {
            return Some(("width", format!("interval has {} bytes, the operation's result has {w} bytes", iv.w)));
        }
    }
    if iv.s > iv.e {
        return Some(("start>end", format!("start {} >s end {}", iv.s, iv.e)));
    }
    if (iv.stride == 0) != (iv.s == iv.e) {
        return Some(("stride0-iff-singleton", format!("start {} end {} stride {}", iv.s, iv.e, iv.stride)));
    }
    if iv.stride != 0 && iv.span() % iv.stride as u128 != 0 {
        return Some(("end-off-stride", format!("end-start = {} is not a multiple of stride {}", iv.span(), iv.stride)));
    }
    for (name, h) in [("lower", &o.lo), ("upper", &o.hi)] {
        if let Some(h) = h {
            if h.w != iv.w {
                return Some(("hint-width", format!("widening {name} bound has {} bytes, interval has {}", h.w, iv.w)));
            }
        }
    }
    None
}

pub fn vjson(v: V) -> Value {
    json!([format!("{:#x}", v.v), v.w])
}

pub fn vparse(j: &Value) -> Option<V> {
    let s = j.get(0)?.as_str()?;
    let w = j.get(1)?.as_u64()? as u32;
    if !(1..=16).contains(&w) {
        return None;
    }
    let v = u128::from_str_radix(s.trim_start_matches("0x"), 16).ok()?;
    Some(V::new(v, w))
}

// ---------------------------------------------------------------------------
// Construction of inputs

#[derive(Clone, Copy, Debug, Default)]
pub struct Hints {
    pub lo: Option<V>,
    pub hi: Option<V>,
    pub delay: u64,
}

impl Hints {
    pub fn none() -> Hints {
        Hints::default()
    }
}

/// An input value together with what the harness knows about it.
#[derive(Clone, Debug)]
pub struct Input {
    pub dom: IntervalDomain,
    pub iv: Iv,
    pub hinted: bool,
}

/// Build an `IntervalDomain` for a well-formed `iv`; hints go through the public API, the delay through serde.
pub fn build(iv: Iv, h: &Hints) -> Result<Input, String> {
    debug_assert!(iv.wf());
    let interval = Interval { start: to_bv(V::from_i(iv.s, iv.w)), end: to_bv(V::from_i(iv.e, iv.w)), stride: iv.stride };
    let mut dom = IntervalDomain::from(interval);
    if h.lo.is_some() || h.hi.is_some() {
        let (lo, hi) = (h.lo.map(to_bv), h.hi.map(to_bv));
        dom = guard(move || {
            dom.update_widening_lower_bound(&lo);
            dom.update_widening_upper_bound(&hi);
            dom
        })
        .map_err(|p| format!("update_widening_*_bound panicked: {p}"))?;
    }
    if h.delay != 0 {
        let mut j = serde_json::to_value(&dom).map_err(|e| e.to_string())?;
        j["widening_delay"] = json!(h.delay);
        dom = serde_json::from_value(j).map_err(|e| e.to_string())?;
    }
    let o = observe(&dom)?;
    if o.iv != iv {
        return Err(format!("constructed {} but observed {}", iv.show(), o.iv.show()));
    }
    Ok(Input { dom, iv, hinted: o.lo.is_some() || o.hi.is_some() || o.delay != 0 })
}

pub fn build_plain(iv: Iv) -> Input {
    let interval = Interval { start: to_bv(V::from_i(iv.s, iv.w)), end: to_bv(V::from_i(iv.e, iv.w)), stride: iv.stride };
    Input { dom: IntervalDomain::from(interval), iv, hinted: false }
}

/// The universe of all well-formed 1-byte intervals.
pub fn build_u1() -> Vec<Iv> {
    let mut u = Vec::with_capacity(171_000);
    for s in -128i128..=127 {
        for e in s..=127 {
            if s == e {
                u.push(Iv { s, e, stride: 0, w: 1 });
            } else {
                let diff = (e - s) as u64;
                for d in 1..=diff {
                    if diff % d == 0 {
                        u.push(Iv { s, e, stride: d, w: 1 });
                    }
                }
            }
        }
    }
    u
}

fn sbiased(rng: &mut Rng, w: u32) -> i128 {
    V::new(rng.biased(w), w).s()
}

/// start + stride*count, clipped so that it stays inside the width.
fn fit(s: i128, stride: u64, count: u128, w: u32) -> Iv {
    let max_span = (smax(w) as u128).wrapping_sub(s as u128);
    if stride == 0 {
        return Iv::single(s, w);
    }
    let count = count.min(max_span / stride as u128);
    if count == 0 {
        return Iv::single(s, w);
    }
    let e = (s as u128).wrapping_add(count * stride as u128) as i128;
    Iv { s, e, stride, w }
}

fn pick_divisor(rng: &mut Rng, diff: u128) -> u64 {
    if diff == 0 {
        return 0;
    }
    if diff > u64::MAX as u128 {
        return 1;
    }
    let d = diff as u64;
    match rng.below(6) {
        0 | 1 => 1,
        2 => d,
        3 => 1u64 << d.trailing_zeros(),
        4 => {
            let cands = [2u64, 3, 4, 5, 6, 7, 8, 9, 10, 12, 15, 16, 17, 32, 64, 85, 127, 128, 255, 256, 257, 1000, 65535, 65536];
            let start = rng.usize_below(cands.len());
            for i in 0..cands.len() {
                let c = cands[(start + i) % cands.len()];
                if d % c == 0 {
                    return if rng.bool() { c } else { d / c };
                }
            }
            1
        }
        _ => {
            // random divisor by trial of a random small number
            let c = rng.below(64) + 1;
            if d % c == 0 {
                d / c
            } else {
                1
            }
        }
    }
}

/// Boundary-biased well-formed interval of width `w` (1..=16).
pub fn gen_iv(rng: &mut Rng, w: u32) -> Iv {
    let (lo, hi) = (smin(w), smax(w));
    let sw = w.min(8);
    let iv = match rng.below(11) {
        0 => Iv::single(sbiased(rng, w), w),
        1 => {
            let opts = [(lo, hi), (0, hi), (lo, -1), (-1, 0), (0, 1), (-1, 1), (lo, lo + 1), (hi - 1, hi), (-2, 2), (0, 255.min(hi))];
            let (s, e) = *rng.pick(&opts);
            Iv { s, e, stride: 1, w }
        }
        2 | 3 | 4 => {
            let s = if rng.bool() { sbiased(rng, w) } else { rng.range_i64(-16, 16) as i128 };
            let s = s.clamp(lo, hi);
            let stride = match rng.below(5) {
                0 | 1 => 1,
                2 => *rng.pick(&[2u64, 3, 4, 8]),
                3 => rng.below(16) + 1,
                _ => 1u64 << rng.below((8 * sw - 1) as u64),
            };
            let count = rng.below(8) as u128 + 1;
            let mut iv = fit(s, stride, count, w);
            if iv.is_single() && rng.bool() {
                // did not fit upwards: grow downwards instead
                let span = stride as u128 * count;
                let room = (s as u128).wrapping_sub(lo as u128);
                if span <= room {
                    iv = Iv { s: (s as u128).wrapping_sub(span) as i128, e: s, stride, w };
                }
            }
            iv
        }
        5 | 6 => {
            let (a, b) = (sbiased(rng, w), sbiased(rng, w));
            let (s, e) = if a <= b { (a, b) } else { (b, a) };
            let diff = (e as u128).wrapping_sub(s as u128);
            Iv { s, e, stride: pick_divisor(rng, diff), w }
        }
        7 => {
            let s = sbiased(rng, w);
            let stride = (rng.biased(sw) as u64).max(1);
            let max_count = (hi as u128).wrapping_sub(s as u128) / stride as u128;
            let count = if rng.bool() { rng.below(8) as u128 + 1 } else { rng.next_u128() % max_count.saturating_add(1) };
            fit(s, stride, count.max(1), w)
        }
        8 => {
            let a = V::new(rng.next_u128(), w).s();
            let b = V::new(rng.next_u128(), w).s();
            let (s, e) = if a <= b { (a, b) } else { (b, a) };
            Iv { s, e, stride: (s != e) as u64, w }
        }
        9 => {
            let k = rng.below((8 * sw) as u64) as u32;
            let stride = 1u64 << k;
            let r = rng.below(stride.min(1 << 20)) as u128;
            let s = (lo as u128).wrapping_add(r) as i128;
            fit(s, stride, u128::MAX, w)
        }
        _ => {
            // around zero / sign crossing with a stride
            let stride = rng.below(40) + 1;
            let below = rng.below(6) as i128;
            let s = (-(below * stride as i128) + rng.range_i64(-1, 1) as i128).clamp(lo, hi);
            fit(s, stride, rng.below(12) as u128 + 1, w)
        }
    };
    debug_assert!(iv.wf(), "{iv:?}");
    iv
}

/// Hint configurations that have a chance to be accepted by `update_widening_*_bound`.
pub fn gen_hints(rng: &mut Rng, iv: &Iv) -> Hints {
    let w = iv.w;
    let step = iv.stride.max(1) as i128;
    let near = |rng: &mut Rng, base: i128, dir: i128| -> Option<V> {
        let k = rng.below(8) as i128 + 1;
        let off = if rng.bool() { step.checked_mul(k)? } else { rng.below(300) as i128 + 1 };
        let x = base.checked_add(dir * off)?;
        if x < smin(w) || x > smax(w) {
            None
        } else {
            Some(V::from_i(x, w))
        }
    };
    let lo = match rng.below(4) {
        0 => None,
        1 | 2 => near(rng, iv.s, -1),
        _ => Some(V::new(rng.biased(w), w)),
    };
    let hi = match rng.below(4) {
        0 => None,
        1 | 2 => near(rng, iv.e, 1),
        _ => Some(V::new(rng.biased(w), w)),
    };
    let delay = match rng.below(6) {
        0 | 1 => 0,
        2 => rng.below(8) + 1,
        3 => iv.span().min(u64::MAX as u128) as u64,
        4 => u64::MAX,
        _ => rng.next_u64() >> rng.below(64),
    };
    Hints { lo, hi, delay }
}

/// Input with (probability 1/2) hints.
pub fn gen_input(rng: &mut Rng, w: u32, rep: &mut Report) -> Input {
    let iv = gen_iv(rng, w);
    input_for(rng, iv, rep)
}

pub fn input_for(rng: &mut Rng, iv: Iv, rep: &mut Report) -> Input {
    if rng.bool() {
        let h = gen_hints(rng, &iv);
        match build(iv, &h) {
            Ok(i) => return i,
            Err(e) => {
                rep.inconclusive("input-construction");
                rep.note(format!("input construction failed for {} with {h:?}: {e}", iv.show()));
            }
        }
    }
    build_plain(iv)
}

/// Sampled members: ends, ends +- stride, middle, and `extra` random on-stride members.
pub fn sample_members(rng: &mut Rng, iv: &Iv, extra: usize) -> Vec<V> {
    let mut out = iv.std_members();
    let n = iv.steps();
    if n > 2 {
        for _ in 0..extra {
            let k = if n == u128::MAX { rng.next_u128() } else { rng.next_u128() % (n + 1) };
            let m = iv.member(k);
            if !out.contains(&m) {
                out.push(m);
            }
        }
    }
    out
}

// ---------------------------------------------------------------------------
// Oracle core

pub fn dom_json(d: &IntervalDomain) -> Value {
    serde_json::to_value(d).unwrap_or(Value::Null)
}

/// Common part of every check: panic => violation, unobservable/ill-formed result => violation.
/// Returns the result and its observation if it is well-formed.
pub fn judge(
    rep: &mut Report,
    sig: &dyn Fn(&str) -> String,
    desc: &dyn Fn() -> String,
    res: Result<IntervalDomain, String>,
    exp_w: Option<u32>,
    case: &dyn Fn() -> Value,
    size: u64,
) -> Option<(IntervalDomain, Obs)> {
    match res {
        Err(p) => {
            rep.violation(sig(&format!("panic:{}", panic_site(&p))), None, format!("{} panicked inside the input domain: {p}", desc()), case(), size);
            None
        }
        Ok(r) => match observe(&r) {
            Err(e) => {
                rep.violation(sig("illformed:unobservable"), None, format!("{}: result cannot be read as an interval of whole bytes: {e}", desc()), case(), size);
                None
            }
            Ok(o) => {
                if let Some((kind, d)) = wf_error(&o, exp_w) {
                    rep.violation(
                        sig(&format!("illformed:{kind}")),
                        None,
                        format!("{} = {} is ill-formed: {d}; expected start <=s end, (end-start) % stride == 0, stride == 0 <=> start == end, width {exp_w:?}", desc(), o.iv.show()),
                        case(),
                        size,
                    );
                    None
                } else {
                    Some((r, o))
                }
            }
        },
    }
}

/// Domain guard for binary operations (what the code legitimately asserts).
pub fn bin_in_domain(op: BinOpType, a: &Iv, b: &Iv) -> bool {
    if op == BinOpType::Piece {
        return a.w + b.w <= 16;
    }
    if pref::is_shift(op) {
        return b.w <= 8;
    }
    if pref::is_bool_bin(op) {
        return a.w == 1 && b.w == 1 && a.s >= 0 && a.e <= 1 && b.s >= 0 && b.e <= 1;
    }
    a.w == b.w
}

fn result_class(rep: &mut Report, o: &Obs) {
    if o.iv.is_top() {
        rep.obs("result:top");
    } else if o.iv.is_single() {
        rep.obs("result:singleton");
    } else {
        rep.obs("result:interval");
    }
    if o.lo.is_some() || o.hi.is_some() {
        rep.obs("result:with-hints");
    }
}

/// Binary operation, witness path: `wa`/`wb` are members of gamma(a)/gamma(b).
pub fn check_bin_w(op: BinOpType, a: &Input, b: &Input, wa: &[V], wb: &[V], rep: &mut Report, track: bool) -> Option<(IntervalDomain, Obs)> {
    if !bin_in_domain(op, &a.iv, &b.iv) {
        return None;
    }
    rep.eval();
    let exp_w = pref::bin_width(op, a.iv.w, b.iv.w);
    let sig = |what: &str| format!("bin:{op:?}:w{}x{}:{what}", a.iv.w, b.iv.w);
    let desc = || format!("IntervalDomain::bin_op({op:?}, {}, {})", a.iv.show(), b.iv.show());
    let size = a.iv.size() + b.iv.size() + 8 * (a.hinted as u64 + b.hinted as u64);
    let case = || json!({"kind":"bin","op":op,"a":dom_json(&a.dom),"b":dom_json(&b.dom),"wa":wa.iter().map(|v| vjson(*v)).collect::<Vec<_>>(),"wb":wb.iter().map(|v| vjson(*v)).collect::<Vec<_>>()});
    let res = guard(|| a.dom.bin_op(op, &b.dom));
    let (r, o) = judge(rep, &sig, &desc, res, exp_w, &case, size)?;
    let mut known = 0u64;
    'outer: for x in wa {
        for y in wb {
            if let Some(z) = pref::bin(op, *x, *y) {
                known += 1;
                if !o.iv.contains(z) {
                    let case1 = json!({"kind":"bin","op":op,"a":dom_json(&a.dom),"b":dom_json(&b.dom),"wa":[vjson(*x)],"wb":[vjson(*y)]});
                    rep.violation(
                        sig("unsound"),
                        None,
                        format!("{} = {}: member {:#x} op member {:#x} = {:#x} (reference) is not in gamma(result)", desc(), o.iv.show(), x.v, y.v, z.v),
                        case1,
                        size,
                    );
                    break 'outer;
                }
            }
        }
    }
    if track {
        rep.obs(&format!("bin:{op:?}:w{}x{}", a.iv.w, b.iv.w));
        result_class(rep, &o);
        if known == 0 {
            rep.obs("reference-unknown-for-all-members");
        }
        if !o.iv.is_top() && !(a.iv.is_single() && b.iv.is_single()) {
            rep.nontrivial(mix(mix(op as u64 + 1, a.iv.fp()), b.iv.fp()));
        }
    }
    Some((r, o))
}

pub const UNK: u32 = u32::MAX;

/// Reference table of a binary operation on 1-byte operands (index a*256+b).
pub fn build_table(op: BinOpType) -> Vec<u32> {
    let mut t = vec![UNK; 65536];
    for a in 0..256u128 {
        for b in 0..256u128 {
            if let Some(r) = pref::bin(op, V::new(a, 1), V::new(b, 1)) {
                t[(a * 256 + b) as usize] = r.v as u32;
            }
        }
    }
    t
}

/// 1-byte input with its member list.
pub struct In1 {
    pub inp: Input,
    pub members: Vec<u8>,
}

impl In1 {
    pub fn new(inp: Input) -> In1 {
        let members = inp.iv.members_u8();
        In1 { inp, members }
    }
}

/// Binary operation on 1-byte operands, all members of both operands.
pub fn check_bin_u1(op: BinOpType, tbl: &[u32], a: &In1, b: &In1, rep: &mut Report, track: bool) {
    let (ai, bi) = (&a.inp, &b.inp);
    if !bin_in_domain(op, &ai.iv, &bi.iv) {
        return;
    }
    rep.eval();
    let exp_w = pref::bin_width(op, 1, 1);
    let sig = |what: &str| format!("bin:{op:?}:w1x1:{what}");
    let desc = || format!("IntervalDomain::bin_op({op:?}, {}, {})", ai.iv.show(), bi.iv.show());
    let size = ai.iv.size() + bi.iv.size() + 8 * (ai.hinted as u64 + bi.hinted as u64);
    let case = || json!({"kind":"bin","op":op,"a":dom_json(&ai.dom),"b":dom_json(&bi.dom),"wa":[],"wb":[]});
    let res = guard(|| ai.dom.bin_op(op, &bi.dom));
    let Some((_r, o)) = judge(rep, &sig, &desc, res, exp_w, &case, size) else { return };
    let mut bad: Option<(u8, u8, u32)> = None;
    if o.iv.w == 1 {
        let bm = o.iv.bitmap();
        if bm != FULL {
            'o1: for &x in &a.members {
                let row = &tbl[(x as usize) * 256..(x as usize) * 256 + 256];
                for &y in &b.members {
                    let r = row[y as usize];
                    if r != UNK && !bm_test(&bm, r as usize) {
                        bad = Some((x, y, r));
                        break 'o1;
                    }
                }
            }
        }
    } else {
        'o2: for &x in &a.members {
            let row = &tbl[(x as usize) * 256..(x as usize) * 256 + 256];
            for &y in &b.members {
                let r = row[y as usize];
                if r != UNK && !o.iv.contains(V::new(r as u128, o.iv.w)) {
                    bad = Some((x, y, r));
                    break 'o2;
                }
            }
        }
    }
    if let Some((x, y, r)) = bad {
        let case1 = json!({"kind":"bin","op":op,"a":dom_json(&ai.dom),"b":dom_json(&bi.dom),"wa":[vjson(V::new(x as u128,1))],"wb":[vjson(V::new(y as u128,1))]});
        rep.violation(
            sig("unsound"),
            None,
            format!("{} = {}: member {x:#x} op member {y:#x} = {r:#x} (reference) is not in gamma(result)", desc(), o.iv.show()),
            case1,
            size,
        );
    }
    if track {
        if !o.iv.is_top() && !(ai.iv.is_single() && bi.iv.is_single()) {
            rep.nontrivial(mix(mix(op as u64 + 1, ai.iv.fp()), bi.iv.fp()));
        }
        result_class(rep, &o);
        if rep.wants_sample() && !o.iv.is_top() && a.members.len() > 1 && b.members.len() > 1 {
            rep.sample(json!({"kind":"bin","op":op,"a":dom_json(&ai.dom),"b":dom_json(&bi.dom),"observed_result":o.iv.show(),
                "checked":"reference image of every member pair is in gamma(result)","member_pairs":a.members.len()*b.members.len()}));
        }
    }
}

/// Generic unary-shaped check (un_op / cast / subpiece): `f` is the real call, `reference` the concrete semantics.
#[allow(clippy::too_many_arguments)]
fn check_unary_shape(
    kind: &str,
    opname: String,
    fpk: u64,
    a: &Input,
    wa: &[V],
    exp_w: u32,
    f: &dyn Fn(&IntervalDomain) -> IntervalDomain,
    reference: &dyn Fn(V) -> Option<V>,
    case_extra: Value,
    rep: &mut Report,
    track: bool,
) -> Option<(IntervalDomain, Obs)> {
    rep.eval();
    let sig = |what: &str| format!("{kind}:{opname}:w{}:{what}", a.iv.w);
    let desc = || format!("IntervalDomain::{kind} {opname} on {}", a.iv.show());
    let size = a.iv.size() + 8 * a.hinted as u64;
    let mk_case = |w: &[V]| {
        let mut c = case_extra.clone();
        c["kind"] = json!(kind);
        c["a"] = dom_json(&a.dom);
        c["wa"] = json!(w.iter().map(|v| vjson(*v)).collect::<Vec<_>>());
        c
    };
    let case = || mk_case(if wa.len() > 16 { &[] } else { wa });
    let res = guard(|| f(&a.dom));
    let (r, o) = judge(rep, &sig, &desc, res, Some(exp_w), &case, size)?;
    let mut known = 0u64;
    if !o.iv.is_top() {
        for x in wa {
            if let Some(z) = reference(*x) {
                known += 1;
                if !o.iv.contains(z) {
                    rep.violation(
                        sig("unsound"),
                        None,
                        format!("{} = {}: image {:#x} (reference) of member {:#x} is not in gamma(result)", desc(), o.iv.show(), z.v, x.v),
                        mk_case(&[*x]),
                        size,
                    );
                    break;
                }
            }
        }
    } else {
        known = 1;
    }
    if !o.iv.is_top() && !a.iv.is_single() {
        // the count is a lower bound: untracked (bulk) calls record one fingerprint in eight
        let fp = mix(fpk, a.iv.fp());
        if track || fp & 7 == 0 {
            rep.nontrivial(fp);
        }
    }
    if track {
        rep.obs(&format!("{kind}:{opname}:w{}", a.iv.w));
        result_class(rep, &o);
        if known == 0 {
            rep.obs("reference-unknown-for-all-members");
        }
    }
    Some((r, o))
}

pub fn un_in_domain(op: UnOpType, a: &Iv) -> bool {
    if op == UnOpType::BoolNegate {
        return a.w == 1 && a.s >= 0 && a.e <= 1;
    }
    true
}

pub fn check_un(op: UnOpType, a: &Input, wa: &[V], rep: &mut Report, track: bool) -> Option<(IntervalDomain, Obs)> {
    if !un_in_domain(op, &a.iv) {
        return None;
    }
    let exp_w = if op == UnOpType::FloatNaN { 1 } else { a.iv.w };
    check_unary_shape("un", format!("{op:?}"), 5000 + op as u64, a, wa, exp_w, &|d| d.un_op(op), &|x| pref::un(op, x), json!({"op":op}), rep, track)
}

pub fn check_cast(op: CastOpType, size: u32, a: &Input, wa: &[V], rep: &mut Report, track: bool) -> Option<(IntervalDomain, Obs)> {
    if matches!(op, CastOpType::IntZExt | CastOpType::IntSExt) && size < a.iv.w {
        return None;
    }
    if size == 0 || size > 16 {
        return None;
    }
    check_unary_shape(
        "cast",
        format!("{op:?}->{size}"),
        6000 + op as u64 * 32 + size as u64,
        a,
        wa,
        size,
        &|d| d.cast(op, bs(size)),
        &|x| pref::cast(op, size, x),
        json!({"op":op,"size":size}),
        rep,
        track,
    )
}

pub fn check_subpiece(low: u32, size: u32, a: &Input, wa: &[V], rep: &mut Report, track: bool) -> Option<(IntervalDomain, Obs)> {
    if size == 0 || low + size > a.iv.w {
        return None;
    }
    check_unary_shape(
        "subpiece",
        format!("{low}+{size}"),
        7000 + low as u64 * 32 + size as u64,
        a,
        wa,
        size,
        &|d| d.subpiece(bs(low), bs(size)),
        &|x| Some(pref::subpiece(low, size, x)),
        json!({"low":low,"size":size}),
        rep,
        track,
    )
}

// ---------------------------------------------------------------------------
// Workload

#[derive(Clone, Debug)]
enum Task {
    Samples,
    /// all members of U1 with the given start value: unary ops, casts, subpieces
    U1Unary(i128),
    BoolExh,
    U1Bin(BinOpType, u64),
    WideBin(BinOpType, u64),
    WideUn(u32, u64),
    Chains(u64),
}

fn vmembers(iv: &Iv) -> Vec<V> {
    iv.all_members(1 << 16).unwrap_or_else(|| iv.std_members())
}

/// 2-byte intervals derived from a 1-byte interval (same number of members).
fn derive_2byte(rng: &mut Rng, a: &Iv, variant: u32) -> Option<Iv> {
    let (lo, hi) = (smin(2), smax(2));
    let iv = match variant {
        0 => Iv { s: a.s, e: a.e, stride: a.stride, w: 2 },
        1 => {
            let c = rng.below(256) as i128;
            Iv { s: a.s * 256 + c, e: a.e * 256 + c, stride: a.stride * 256, w: 2 }
        }
        2 => {
            let offs = [127i128, 128, 255, 256, -129, -128, -256, -257, 0x7f00, -0x7f00, 0x100 - a.s, 0x80 - a.e];
            let off = if rng.bool() { *rng.pick(&offs) } else { rng.range_i64(lo as i64 - a.s as i64, hi as i64 - a.e as i64) as i128 };
            Iv { s: a.s + off, e: a.e + off, stride: a.stride, w: 2 }
        }
        _ => {
            let k = rng.range_i64(2, 127) as i128;
            let c = rng.range_i64(-200, 200) as i128;
            Iv { s: a.s * k + c, e: a.e * k + c, stride: a.stride * k as u64, w: 2 }
        }
    };
    if iv.s < lo || iv.e > hi || !iv.wf() {
        None
    } else {
        Some(iv)
    }
}

fn unary_battery(inp: &Input, members: &[V], plain: bool, rep: &mut Report) {
    let w = inp.iv.w;
    for op in pref::INT_UN_OPS {
        check_un(*op, inp, members, rep, false);
    }
    if plain {
        for op in pref::FLOAT_UN_OPS {
            check_un(*op, inp, members, rep, false);
        }
        for op in pref::FLOAT_CASTS {
            check_cast(*op, 4, inp, members, rep, false);
        }
    }
    let ext_sizes: &[u32] = if plain { &[1, 2, 3, 4, 8, 16] } else { &[1, 2, 4, 8, 16] };
    for &size in ext_sizes {
        if size >= w {
            check_cast(CastOpType::IntZExt, size, inp, members, rep, false);
            check_cast(CastOpType::IntSExt, size, inp, members, rep, false);
        }
    }
    for size in [1u32, 2, 4, 8] {
        check_cast(CastOpType::PopCount, size, inp, members, rep, false);
        check_cast(CastOpType::LzCount, size, inp, members, rep, false);
    }
    for low in 0..w {
        for size in 1..=(w - low) {
            check_subpiece(low, size, inp, members, rep, false);
        }
    }
}

fn run_u1_unary(start: i128, u1: &[Iv], cfg: &Cfg, rng: &mut Rng, rep: &mut Report) {
    let hinted_variants = cfg.tier.pick(1, 3);
    let derived_variants = cfg.tier.pick(2u32, 4u32);
    let mut n_in = 0u64;
    for a in u1.iter().filter(|iv| iv.s == start) {
        let members = vmembers(a);
        let plain = build_plain(*a);
        unary_battery(&plain, &members, true, rep);
        n_in += 1;
        for _ in 0..hinted_variants {
            let h = gen_hints(rng, a);
            match build(*a, &h) {
                Ok(inp) => {
                    if inp.hinted {
                        unary_battery(&inp, &members, false, rep);
                        n_in += 1;
                    }
                }
                Err(e) => {
                    rep.inconclusive("input-construction");
                    rep.note(format!("input construction failed: {e}"));
                }
            }
        }
        // sub-pieces (and the other unary operations) of 2-byte intervals derived from `a`
        for k in 0..derived_variants {
            let variant = if derived_variants == 4 { k } else { rng.below(4) as u32 };
            if let Some(iv2) = derive_2byte(rng, a, variant) {
                let inp = input_for(rng, iv2, rep);
                let m2 = vmembers(&iv2);
                unary_battery(&inp, &m2, false, rep);
                n_in += 1;
            }
        }
    }
    rep.obs_n("u1-unary:inputs", n_in);
    if start == 127 {
        rep.exhaustive_parts.push("every well-formed 1-byte interval x every unary op / cast / subpiece, all members".into());
    }
}

/// Boundary-biased choice of a 1-byte interval.
fn pick_iv1(rng: &mut Rng, u1: &[Iv], op: BinOpType, rhs: bool) -> Iv {
    if rhs && pref::is_shift(op) && rng.chance(3, 4) {
        let x = if rng.bool() { rng.below(10) as i128 } else { sbiased(rng, 1) };
        return Iv::single(x, 1);
    }
    match rng.below(8) {
        0 | 1 => u1[rng.usize_below(u1.len())],
        2 | 3 => gen_iv(rng, 1),
        4 | 5 => {
            let s = rng.range_i64(-12, 12) as i128;
            let stride = rng.below(6) + 1;
            fit(s, stride, rng.below(6) as u128 + 1, 1)
        }
        6 => Iv::single(sbiased(rng, 1), 1),
        _ => {
            let opts = [(-128i128, 127i128), (0, 127), (-128, -1), (-1, 0), (0, 1), (-1, 1), (1, 2), (-2, -1), (126, 127), (-128, -127)];
            let (s, e) = *rng.pick(&opts);
            Iv { s, e, stride: 1, w: 1 }
        }
    }
}

fn run_u1_bin(op: BinOpType, n: u64, u1: &[Iv], rng: &mut Rng, rep: &mut Report) {
    let tbl = build_table(op);
    for i in 0..n {
        let a = pick_iv1(rng, u1, op, false);
        let mut b = pick_iv1(rng, u1, op, true);
        if rng.chance(1, 16) {
            b = a;
        }
        let a = In1::new(input_for(rng, a, rep));
        let b = In1::new(input_for(rng, b, rep));
        check_bin_u1(op, &tbl, &a, &b, rep, i % 16 == 0);
    }
    rep.obs_n(&format!("bin:{op:?}:w1x1"), n);
}

fn run_bool_exh(rng: &mut Rng, rep: &mut Report) {
    let ivs = [Iv::single(0, 1), Iv::single(1, 1), Iv { s: 0, e: 1, stride: 1, w: 1 }];
    for op in [BinOpType::BoolAnd, BinOpType::BoolOr, BinOpType::BoolXOr] {
        let tbl = build_table(op);
        for a in ivs {
            for b in ivs {
                for round in 0..8 {
                    let (ia, ib) = if round == 0 { (build_plain(a), build_plain(b)) } else { (input_for(rng, a, rep), input_for(rng, b, rep)) };
                    check_bin_u1(op, &tbl, &In1::new(ia), &In1::new(ib), rep, true);
                    rep.obs(&format!("bin:{op:?}:w1x1"));
                }
            }
        }
    }
    rep.exhaustive_parts.push("BOOL_AND/OR/XOR on all pairs of 1-byte intervals within {0,1}".into());
}

fn wide_widths(rng: &mut Rng, op: BinOpType) -> (u32, u32) {
    if op == BinOpType::Piece {
        loop {
            let a = *rng.pick(&[1u32, 2, 4, 8]);
            let b = *rng.pick(&[1u32, 2, 4, 8]);
            if a + b <= 16 && a + b > 2 {
                return (a, b);
            }
        }
    }
    if pref::is_shift(op) {
        loop {
            let a = *rng.pick(&[1u32, 2, 4, 8]);
            let b = *rng.pick(&[1u32, 2, 4, 8]);
            if a + b > 2 {
                return (a, b);
            }
        }
    }
    let w = *rng.pick(&[2u32, 4, 8]);
    (w, w)
}

fn run_wide_bin(op: BinOpType, n: u64, rng: &mut Rng, rep: &mut Report) {
    if pref::is_bool_bin(op) {
        return;
    }
    for i in 0..n {
        let (aw, bw) = wide_widths(rng, op);
        let a = gen_input(rng, aw, rep);
        let mut b = gen_input(rng, bw, rep);
        if pref::is_shift(op) && rng.chance(3, 4) {
            let amount = if rng.bool() { rng.below(8 * aw as u64 + 2) as i128 } else { sbiased(rng, bw) };
            b = input_for(rng, Iv::single(V::from_i(amount, bw).s(), bw), rep);
        } else if aw == bw && rng.chance(1, 16) {
            b = a.clone();
        } else if rng.chance(1, 8) {
            let x = rng.range_i64(-9, 9) as i128;
            b = input_for(rng, Iv::single(x, bw), rep);
        }
        let wa = sample_members(rng, &a.iv, 3);
        let wb = sample_members(rng, &b.iv, 3);
        let r = check_bin_w(op, &a, &b, &wa, &wb, rep, true);
        if let Some((_, o)) = &r {
            if i < 64 && rep.wants_sample() && !o.iv.is_top() && !a.iv.is_single() && !b.iv.is_single() {
                rep.sample(json!({"kind":"bin","op":op,"a":dom_json(&a.dom),"b":dom_json(&b.dom),"members_a":wa.iter().map(|v| vjson(*v)).collect::<Vec<_>>(),
                    "members_b":wb.iter().map(|v| vjson(*v)).collect::<Vec<_>>(),"observed_result":o.iv.show(),"checked":"reference image of every listed member pair is in gamma(result)"}));
            }
        }
    }
}

fn run_wide_un(w: u32, n: u64, rng: &mut Rng, rep: &mut Report) {
    for _ in 0..n {
        let a = gen_input(rng, w, rep);
        let wa = sample_members(rng, &a.iv, 4);
        check_un(UnOpType::Int2Comp, &a, &wa, rep, true);
        check_un(UnOpType::IntNegate, &a, &wa, rep, true);
        if rng.chance(1, 8) {
            check_un(*rng.pick(pref::FLOAT_UN_OPS), &a, &wa, rep, true);
            check_cast(*rng.pick(pref::FLOAT_CASTS), *rng.pick(&[4u32, 8]), &a, &wa, rep, true);
        }
        let target = *rng.pick(&[w, w + 1, 2 * w, 16, 8.max(w)]);
        check_cast(CastOpType::IntZExt, target.min(16), &a, &wa, rep, true);
        check_cast(CastOpType::IntSExt, target.min(16), &a, &wa, rep, true);
        let cw = *rng.pick(&[1u32, 2, 4, 8]);
        check_cast(CastOpType::PopCount, cw, &a, &wa, rep, true);
        check_cast(CastOpType::LzCount, cw, &a, &wa, rep, true);
        let size = rng.range_usize(1, w as usize) as u32;
        let low = rng.below((w - size + 1) as u64) as u32;
        check_subpiece(low, size, &a, &wa, rep, true);
        check_subpiece(0, size, &a, &wa, rep, true);
        check_subpiece(w - size, size, &a, &wa, rep, true);
    }
}

const CHAIN_BIN_OPS: &[BinOpType] = &[
    BinOpType::IntAdd, BinOpType::IntAdd, BinOpType::IntSub, BinOpType::IntSub, BinOpType::IntMult, BinOpType::IntMult,
    BinOpType::IntLeft, BinOpType::IntLeft, BinOpType::Piece, BinOpType::Piece, BinOpType::IntAnd, BinOpType::IntOr, BinOpType::IntXOr,
    BinOpType::IntRight, BinOpType::IntSRight, BinOpType::IntDiv, BinOpType::IntSDiv, BinOpType::IntRem, BinOpType::IntSRem,
    BinOpType::IntEqual, BinOpType::IntNotEqual, BinOpType::IntLess, BinOpType::IntSLess, BinOpType::IntLessEqual, BinOpType::IntSLessEqual,
    BinOpType::IntCarry, BinOpType::IntSCarry, BinOpType::IntSBorrow, BinOpType::BoolAnd, BinOpType::BoolOr, BinOpType::BoolXOr,
];

fn refresh_witnesses(rng: &mut Rng, iv: &Iv, images: Vec<V>) -> Vec<V> {
    let mut wit: Vec<V> = Vec::new();
    for v in images {
        if wit.len() < 8 && !wit.contains(&v) && iv.contains(v) {
            wit.push(v);
        }
    }
    for v in sample_members(rng, iv, 2) {
        if wit.len() < 8 && !wit.contains(&v) {
            wit.push(v);
        }
    }
    wit
}

/// One witness-shadowed chain. Every abstract value carries <= 8 members of its gamma.
fn run_chain(rng: &mut Rng, rep: &mut Report) {
    let w0 = *rng.pick(&[1u32, 1, 2, 4, 8]);
    let mut cur = gen_input(rng, w0, rep);
    let mut wit = sample_members(rng, &cur.iv, 3);
    wit.truncate(8);
    let len = rng.range_usize(2, 8);
    let mut steps = 0u64;
    for _ in 0..len {
        let w = cur.iv.w;
        let in_quantifier = matches!(w, 1 | 2 | 4 | 8);
        let next: Option<(IntervalDomain, Obs, Vec<V>)> = match rng.below(12) {
            _ if !in_quantifier => {
                // Widths other than 1/2/4/8 (results of PIECE / extensions) are outside the property's quantifier:
                // cut the value back to a quantified width with an unjudged sub-piece (state producer, witnesses re-sampled).
                let c: Vec<u32> = [1u32, 2, 4, 8].into_iter().filter(|s| *s < w).collect();
                let size = *rng.pick(&c);
                let low = rng.below((w - size + 1) as u64) as u32;
                match guard(|| cur.dom.subpiece(bs(low), bs(size))) {
                    Ok(r) => match observe(&r) {
                        Ok(o) if wf_error(&o, Some(size)).is_none() => {
                            rep.obs("chain:unjudged-subpiece-of-wide-value");
                            Some((r, o, Vec::new()))
                        }
                        _ => None,
                    },
                    Err(_) => None,
                }
            }
            0..=5 => {
                let op = *rng.pick(CHAIN_BIN_OPS);
                let cur_left = rng.bool();
                let ow = if op == BinOpType::Piece {
                    if w >= 16 {
                        continue;
                    }
                    *rng.pick(&[1u32, 2, 4, 8]).min(&(16 - w))
                } else if pref::is_shift(op) {
                    if cur_left {
                        *rng.pick(&[1u32, 2, 4, 8])
                    } else if w > 8 {
                        continue;
                    } else {
                        *rng.pick(&[1u32, 2, 4, 8])
                    }
                } else {
                    w
                };
                let (other, wo) = if ow == w && rng.chance(1, 8) {
                    (cur.clone(), wit.clone())
                } else {
                    let o = if pref::is_shift(op) && cur_left && rng.chance(3, 4) {
                        let x = rng.below(8 * w as u64 + 2) as i128 % (smax(ow) + 1);
                        input_for(rng, Iv::single(x, ow), rep)
                    } else if rng.chance(1, 4) {
                        let x = rng.range_i64(-5, 5) as i128;
                        input_for(rng, Iv::single(x, ow), rep)
                    } else {
                        gen_input(rng, ow, rep)
                    };
                    let mut m = sample_members(rng, &o.iv, 2);
                    m.truncate(8);
                    (o, m)
                };
                let (a, b, wa, wb) = if cur_left { (&cur, &other, &wit, &wo) } else { (&other, &cur, &wo, &wit) };
                if !bin_in_domain(op, &a.iv, &b.iv) {
                    continue;
                }
                let mut images = Vec::new();
                for x in wa.iter() {
                    for y in wb.iter() {
                        if let Some(z) = pref::bin(op, *x, *y) {
                            images.push(z);
                        }
                    }
                }
                rng.shuffle(&mut images);
                check_bin_w(op, a, b, wa, wb, rep, true).map(|(r, o)| (r, o, images))
            }
            6 => {
                let op = *rng.pick(&[UnOpType::Int2Comp, UnOpType::IntNegate, UnOpType::BoolNegate]);
                if !un_in_domain(op, &cur.iv) {
                    continue;
                }
                let images = wit.iter().filter_map(|x| pref::un(op, *x)).collect();
                check_un(op, &cur, &wit, rep, true).map(|(r, o)| (r, o, images))
            }
            7 | 8 => {
                let op = *rng.pick(pref::INT_CASTS);
                let size = if matches!(op, CastOpType::IntZExt | CastOpType::IntSExt) {
                    let c: Vec<u32> = [1u32, 2, 4, 8, 16].into_iter().filter(|s| *s >= w).collect();
                    *rng.pick(&c)
                } else {
                    *rng.pick(&[1u32, 2, 4, 8])
                };
                let images = wit.iter().filter_map(|x| pref::cast(op, size, *x)).collect();
                check_cast(op, size, &cur, &wit, rep, true).map(|(r, o)| (r, o, images))
            }
            9 => {
                if w < 2 {
                    continue;
                }
                let size = rng.range_usize(1, w as usize - 1) as u32;
                let low = rng.below((w - size + 1) as u64) as u32;
                let images = wit.iter().map(|x| pref::subpiece(low, size, *x)).collect();
                check_subpiece(low, size, &cur, &wit, rep, true).map(|(r, o)| (r, o, images))
            }
            10 => {
                // state producer (not judged here, C03 judges merge): merge with a fresh value; witnesses are re-sampled
                let other = gen_input(rng, w, rep);
                match guard(|| cur.dom.merge(&other.dom)) {
                    Ok(r) => match observe(&r) {
                        Ok(o) if wf_error(&o, Some(w)).is_none() => {
                            rep.obs("chain:merge-step");
                            Some((r, o, Vec::new()))
                        }
                        _ => None,
                    },
                    Err(_) => None,
                }
            }
            _ => {
                // state producer (judged by C04): conditional refinement creates widening hints
                let bound = to_bv(V::new(rng.biased(w), w));
                let d = cur.dom.clone();
                let le = rng.bool();
                let r = guard(move || if le { d.add_signed_less_equal_bound(&bound) } else { d.add_signed_greater_equal_bound(&bound) });
                match r {
                    Ok(Ok(r)) => match observe(&r) {
                        Ok(o) if wf_error(&o, Some(w)).is_none() => {
                            rep.obs("chain:refine-step");
                            Some((r, o, Vec::new()))
                        }
                        _ => None,
                    },
                    _ => continue,
                }
            }
        };
        let Some((r, o, images)) = next else { break };
        steps += 1;
        wit = refresh_witnesses(rng, &o.iv, images);
        let hinted = o.lo.is_some() || o.hi.is_some() || o.delay != 0;
        cur = Input { dom: r, iv: o.iv, hinted };
        if hinted {
            rep.obs("chain:state-with-hints");
        }
    }
    rep.obs_n("chain:steps", steps);
    rep.obs("chains");
}

fn run_samples(rep: &mut Report) {
    // a few complete, hand-picked cases that go through the same check functions
    let mk = |s: i128, e: i128, stride: u64, w: u32| build_plain(Iv { s, e, stride, w });
    let cases: Vec<(BinOpType, Input, Input)> = vec![
        (BinOpType::IntAdd, mk(-3, 9, 4, 1), mk(10, 16, 6, 1)),
        (BinOpType::IntMult, mk(0, 0, 0, 1), mk(1, 5, 1, 1)),
        (BinOpType::Piece, mk(1, 2, 1, 1), mk(-128, 0, 128, 1)),
        (BinOpType::IntLeft, mk(-3, 5, 2, 2), mk(3, 3, 0, 1)),
    ];
    for (op, a, b) in cases {
        let (wa, wb) = (vmembers(&a.iv), vmembers(&b.iv));
        if let Some((_, o)) = check_bin_w(op, &a, &b, &wa, &wb, rep, true) {
            let mut images: Vec<String> = Vec::new();
            for x in &wa {
                for y in &wb {
                    if let Some(z) = pref::bin(op, *x, *y) {
                        let s = format!("{}", z.s());
                        if !images.contains(&s) {
                            images.push(s);
                        }
                    }
                }
            }
            rep.sample(json!({"kind":"bin","op":op,"a":a.iv.show(),"b":b.iv.show(),"reference_images_of_all_member_pairs":images,"observed_result":o.iv.show(),"verdict":"all images are members, result well-formed"}));
        }
    }
    let a = mk(-2, 4, 3, 1);
    let wa = vmembers(&a.iv);
    if let Some((_, o)) = check_cast(CastOpType::IntZExt, 2, &a, &wa, rep, true) {
        rep.sample(json!({"kind":"cast","op":"IntZExt","size":2,"a":a.iv.show(),"reference_images":wa.iter().map(|x| pref::cast(CastOpType::IntZExt,2,*x).unwrap().v).collect::<Vec<_>>(),"observed_result":o.iv.show()}));
    }
}

fn run_task(task: &Task, u1: &[Iv], cfg: &Cfg, rng: &mut Rng, rep: &mut Report) {
    match task {
        Task::Samples => run_samples(rep),
        Task::U1Unary(s) => run_u1_unary(*s, u1, cfg, rng, rep),
        Task::BoolExh => run_bool_exh(rng, rep),
        Task::U1Bin(op, n) => run_u1_bin(*op, *n, u1, rng, rep),
        Task::WideBin(op, n) => run_wide_bin(*op, *n, rng, rep),
        Task::WideUn(w, n) => run_wide_un(*w, *n, rng, rep),
        Task::Chains(n) => {
            for _ in 0..*n {
                run_chain(rng, rep);
            }
        }
    }
}

fn heavy(op: BinOpType) -> bool {
    matches!(op, BinOpType::IntAdd | BinOpType::IntSub | BinOpType::IntMult | BinOpType::IntLeft | BinOpType::Piece)
}

fn run(cfg: &Cfg) -> Report {
    let u1 = build_u1();
    let mut tasks: Vec<Task> = vec![Task::Samples, Task::BoolExh];
    // shards of 25 000 pairs
    let shard = 25_000u64;
    for op in pref::INT_BIN_OPS {
        if pref::is_bool_bin(*op) {
            continue;
        }
        let pairs = if heavy(*op) { cfg.tier.pick(200_000u64, 10_000_000) } else { cfg.tier.pick(50_000u64, 2_000_000) };
        for _ in 0..pairs / shard {
            tasks.push(Task::U1Bin(*op, shard));
        }
        let wide = if heavy(*op) { cfg.tier.pick(100_000u64, 4_000_000) } else { cfg.tier.pick(25_000u64, 1_000_000) };
        for _ in 0..wide / shard {
            tasks.push(Task::WideBin(*op, shard));
        }
    }
    for op in pref::FLOAT_BIN_OPS {
        tasks.push(Task::U1Bin(*op, 2_000));
        tasks.push(Task::WideBin(*op, 2_000));
    }
    for s in -128i128..=127 {
        tasks.push(Task::U1Unary(s));
    }
    for w in [2u32, 4, 8] {
        for _ in 0..cfg.tier.pick(4, 80) {
            tasks.push(Task::WideUn(w, shard));
        }
    }
    for _ in 0..cfg.tier.pick(16, 400) {
        tasks.push(Task::Chains(shard / 2));
    }
    let mut rep = par_shards(cfg, "c02", tasks.len(), |idx, rng, rep| run_task(&tasks[idx], &u1, cfg, rng, rep));
    rep.extra.insert("u1_size".into(), json!(u1.len()));
    // In-situ invariant sweep: the well-formedness invariant evaluated on live analysis states at the quiescent
    // point "pointer-inference fixpoint finished" (programs and pipeline of the C13 workload).
    let shards = cfg.tier.pick(64usize, 256usize);
    let per_shard = cfg.tier.pick(8usize, 12usize);
    let insitu = par_shards(cfg, "c02-insitu", shards, |idx, rng, rep| {
        for i in 0..per_shard {
            let optimize = (idx + i) % 2 == 0;
            let exotic = rng.chance(1, 8);
            let Ok((project, meta)) = guard(|| crate::c13::gen_program(rng, optimize, exotic)) else {
                rep.inconclusive("insitu:generator-panic");
                continue;
            };
            insitu_check(&project, &meta, rep);
        }
    });
    rep.merge(insitu);
    rep
}

/// Evaluate the interval well-formedness invariant on every register / stack-slot value of every block-start state
/// and on every def value/address the finished pointer inference exposes for `project`.
fn insitu_check(project: &Project, meta: &crate::c13::Meta, rep: &mut Report) {
    use crate::c13::{AbsVal, Itv};
    let ex = match guard(|| crate::c13::analyse(project, meta)) {
        Ok(ex) => ex,
        Err(msg) => {
            // a crash of the analysis is C13/C21 material, not an interval-invariant verdict
            rep.inconclusive(&format!("insitu:analysis-panic:{}", panic_site(&msg)));
            return;
        }
    };
    let bad = |i: &Itv| -> Option<&'static str> {
        if i.start > i.end {
            Some("start>end")
        } else if (i.start == i.end) != (i.stride == 0) {
            Some("stride0-iff-singleton")
        } else if i.stride != 0 && (i.end - i.start) % i.stride as i128 != 0 {
            Some("end-off-stride")
        } else {
            None
        }
    };
    let mut seen = 0u64;
    let mut check = |what: String, a: &AbsVal, rep: &mut Report| {
        for (i, kind) in a.abs.iter().map(|i| (i, "absolute part")).chain(a.rel.iter().map(|(_, _, i)| (i, "relative offset"))) {
            seen += 1;
            rep.eval();
            if let Some(why) = bad(i) {
                rep.violation(
                    format!("insitu:{why}"),
                    None,
                    format!("ill-formed interval in a pointer-inference fixpoint state: {what}, {kind} = [{}, {}] stride {} ({why}); abstract value: {}\n{}", i.start, i.end, i.stride, a.text, crate::irb::show_program(&project.program.term)),
                    json!({"kind": "insitu", "project": crate::irb::project_to_json(project), "meta": meta.to_json()}),
                    project.program.term.subs.values().map(|s| s.term.blocks.len() as u64).sum(),
                );
            }
        }
    };
    for (blk, abs) in &ex.blocks {
        if let Some(ba) = abs {
            for (r, a) in &ba.regs {
                check(format!("register {r} at the start of block {blk}"), a, rep);
            }
            for ((off, size), a) in &ba.slots {
                check(format!("stack slot [{off},{size}] at the start of block {blk}"), a, rep);
            }
        }
    }
    for (t, a) in ex.def_vals.iter().chain(ex.def_addrs.iter()) {
        check(format!("value/address at def {t}"), a, rep);
    }
    rep.obs_n("insitu:intervals-checked", seen);
    rep.obs("insitu:programs");
    if seen > 0 {
        rep.nontrivial(fp_of(&project.program) ^ 0x1251);
    }
}

// ---------------------------------------------------------------------------
// Replay

fn replay_input(j: &Value) -> Option<Input> {
    let dom: IntervalDomain = serde_json::from_value(j.clone()).ok()?;
    let o = observe(&dom).ok()?;
    if wf_error(&o, None).is_some() {
        return None; // not an input of the property's domain
    }
    Some(Input { dom, iv: o.iv, hinted: o.lo.is_some() || o.hi.is_some() || o.delay != 0 })
}

fn replay_members(inp: &Input, j: &Value) -> Vec<V> {
    let mut m = inp.iv.all_members(1024).unwrap_or_else(|| inp.iv.std_members());
    if let Some(arr) = j.as_array() {
        for v in arr.iter().filter_map(vparse) {
            if inp.iv.contains(v) && !m.contains(&v) {
                m.push(v);
            }
        }
    }
    m
}

fn replay(_cfg: &Cfg, case: &Value) -> Report {
    let mut rep = Report::new();
    if case["kind"] == json!("insitu") {
        if let Ok(project) = crate::irb::project_from_json(&case["project"]) {
            let meta = crate::c13::Meta::from_json(&case["meta"]);
            insitu_check(&project, &meta, &mut rep);
        }
        return rep;
    }
    let Some(a) = replay_input(&case["a"]) else {
        rep.note("replay: cannot rebuild input a");
        return rep;
    };
    let wa = replay_members(&a, &case["wa"]);
    match case["kind"].as_str().unwrap_or("") {
        "bin" => {
            if let (Ok(op), Some(b)) = (serde_json::from_value::<BinOpType>(case["op"].clone()), replay_input(&case["b"])) {
                let wb = replay_members(&b, &case["wb"]);
                check_bin_w(op, &a, &b, &wa, &wb, &mut rep, true);
            }
        }
        "un" => {
            if let Ok(op) = serde_json::from_value::<UnOpType>(case["op"].clone()) {
                check_un(op, &a, &wa, &mut rep, true);
            }
        }
        "cast" => {
            if let (Ok(op), Some(size)) = (serde_json::from_value::<CastOpType>(case["op"].clone()), case["size"].as_u64()) {
                check_cast(op, size as u32, &a, &wa, &mut rep, true);
            }
        }
        "subpiece" => {
            if let (Some(low), Some(size)) = (case["low"].as_u64(), case["size"].as_u64()) {
                check_subpiece(low as u32, size as u32, &a, &wa, &mut rep, true);
            }
        }
        _ => rep.note("unknown replay case kind"),
    }
    rep
}
