//! C15 — the NULL-dereference check (CWE476) flags exactly the unchecked flows of return values
//! of configured allocation functions (programs in which the value flows only through registers).
//!
//! Monitor shape: the real module is driven through its public entry (`CWE_MODULE.run`) behind the same
//! pipeline the CLI builds (normalize, CFG, function signatures, pointer inference with the shipped
//! `Memory` configuration, shipped `CWE476` configuration). Next to it an explicit-state search written
//! from the property statement decides, per source call site, whether a sink state is reachable.
//!
//! Reference semantics (`Model::search`): states `(block, set of tainted variables)`, started at the return
//! site of every call to a configured symbol with the declared return registers tainted; assignments taint
//! the target iff an input is tainted, a load result is untainted, overwritten => untainted; a conditional
//! jump (or its fall-through partner) whose condition reads a tainted variable ends the path; sinks: load or
//! store whose address reads a tainted variable, extern call with a tainted declared parameter, internal or
//! indirect call with a tainted parameter register of the applicable calling convention, return with a
//! tainted return register when the sub has an internal caller with a return site; at calls the taint of
//! registers that are not callee-saved is dropped; a path passes an internal call only if the callee can return.
//!
//! Two further searches are *discriminators* for known findings, not oracles (see the end of `check_normalized`):
//! * `lower bound`: the same search in which a conditional jump additionally ends the path when its
//!   condition reads any variable that is tainted in *some* path-wise state at that block end. Every
//!   evaluation order of a union-merging fixpoint must find at least these sources.
//! * `merged`: union-merge at joins, blocks in topological order; exact for the implementation whenever the
//!   part of the interprocedural graph reachable from the source is acyclic.

use crate::core::*;
use crate::irb::*;
use crate::prng::Rng;
use cwe_checker_lib::analysis::graph::get_program_cfg_with_logs;
use cwe_checker_lib::intermediate_representation::*;
use cwe_checker_lib::pipeline::AnalysisResults;
use cwe_checker_lib::utils::log::CweWarning;
use serde_json::{json, Value};
use std::collections::{BTreeMap, BTreeSet, HashSet};
use std::sync::OnceLock;

pub fn info() -> CheckInfo {
    CheckInfo {
        id: "C15",
        rule: "random x86-64-style programs (1-3 subs, 1-3 calls to symbols of the shipped CWE476 symbol list; register copies/arithmetic/sub-register casts/flags/temporaries, loads and stores through tainted and untainted addresses, conditional jumps on tainted and untainted conditions in both polarities, overwrites, loops, indirect jumps, extern calls with declared register/sub-register/stack parameters under two calling conventions, internal calls (also recursive, callee annotated with the second convention, returning or not), indirect calls, calls without return site, returns to internal callers; plus two template workloads: diamond joins with a check after the join, and a 'park the value in one register across one call' template over all call kinds and both conventions) normalised and analysed by the real pipeline (CFG, function signatures, pointer inference with the shipped Memory configuration, CWE476 with the shipped configuration); per source call site the warning set is compared with an explicit-state path-wise search written from the statement; also: every warning names a source call site, its address and symbol, at most one warning per source, and the reported access is a sink that the reference search reaches from that source. non-trivial = a program in which at least one source has a reachable sink, a killing check or a taint drop at a call; distinct = hash of the normalised program; evaluations = source call sites decided",
        assumptions: &[
            "the oracle is evaluated on the normalised program (the program the check sees); that normalisation preserves behaviour is property C10",
            "domain guard of the statement ('flows only through registers'): stores whose value is tainted in some path-wise state are rewritten by the generator to store a constant; a program that still stores a tainted value after normalisation is counted inconclusive",
            "the standard calling convention of the project is the one registered as '__stdcall' (System V); '__fastcall' (Microsoft x64 register set) is the second convention; indirect calls use the standard one, internal calls and returns the one annotated at the callee / returning sub",
            "internal callees whose Return instruction is unreachable from their entry are outside the decided domain (the statement does not say whether such a callee 'returns'): inconclusive",
            "temporaries are block-local; blocks end with at most [CBranch, Branch]; no CALLOTHER jumps (no CFG edges by a documented TODO)",
            "known-finding discriminators: c15-call-without-return-site = the source is not reported and the reference search finds no sink once extern/indirect calls without return site are not counted as sinks; c15-join-merge = the source is not reported, the reference search finds a sink, and the union-merging variant explains the miss (acyclic region: the exact merged, topologically ordered variant does not reach a sink; cyclic region: the lower-bound search, in which a conditional jump also ends a path when its condition reads a variable tainted in any path-wise state at that block end, does not reach a sink); c15-pi-panic-nested-parameter-without-parent-object = the pointer inference (a prerequisite, not the check) panics with 'Abstract object does not exist' in pointer_inference/state/mod.rs",
            "verdicts on the release profile",
        ],
        run,
        replay,
    }
}

// ---------------------------------------------------------------------------------------------
// Configuration (shipped file, compiled in so that the module does not depend on the working dir)

fn shipped_config() -> &'static Value {
    static CFG: OnceLock<Value> = OnceLock::new();
    CFG.get_or_init(|| serde_json::from_str(include_str!("/repo/src/config.json")).expect("shipped config.json parses"))
}

fn configured_symbols() -> &'static BTreeSet<String> {
    static S: OnceLock<BTreeSet<String>> = OnceLock::new();
    S.get_or_init(|| {
        shipped_config()["CWE476"]["symbols"]
            .as_array()
            .expect("CWE476.symbols")
            .iter()
            .filter_map(|v| v.as_str().map(|s| s.to_string()))
            .collect()
    })
}

// ---------------------------------------------------------------------------------------------
// Generator

const R8: &[&str] = &["RAX", "RAX", "RAX", "RBX", "RBX", "RCX", "RDX", "RSI", "RDI", "R12", "R10"];
const FLAGS2: &[&str] = &["ZF", "CF"];

pub fn cconv_ms() -> CallingConvention {
    CallingConvention {
        name: "__fastcall".to_string(),
        integer_parameter_register: ["RCX", "RDX", "R8", "R9"].iter().map(|n| reg(n)).collect(),
        float_parameter_register: Vec::new(),
        integer_return_register: vec![reg("RAX")],
        float_return_register: Vec::new(),
        callee_saved_register: ["RBX", "RBP", "RDI", "RSI", "RSP", "R12", "R13", "R14", "R15"].iter().map(|n| reg(n)).collect(),
    }
}

fn ext_sym(name: &str, params: Vec<Arg>, rets: &[&str], no_return: bool, cconv: &str) -> ExternSymbol {
    ExternSymbol {
        tid: tid(&format!("ext_{name}"), &format!("ext_{name}")),
        addresses: vec!["UNKNOWN".to_string()],
        name: name.to_string(),
        calling_convention: Some(cconv.to_string()),
        parameters: params,
        return_values: rets.iter().map(|r| Arg::Register { expr: e_reg(r), data_type: None }).collect(),
        no_return,
        has_var_args: false,
    }
}

fn areg(n: &str) -> Arg {
    Arg::Register { expr: e_reg(n), data_type: None }
}
fn areg4(n: &str) -> Arg {
    Arg::Register { expr: e_subpiece(0, 4, e_reg(n)), data_type: None }
}

/// Source symbols (all names are taken from the shipped CWE476 list; checked at run time).
fn source_pool() -> Vec<ExternSymbol> {
    vec![
        ext_sym("malloc", vec![areg("RDI")], &["RAX"], false, "__stdcall"),
        ext_sym("calloc", vec![areg("RDI"), areg("RSI")], &["RAX"], false, "__stdcall"),
        ext_sym("realloc", vec![areg("RDI"), areg("RSI")], &["RAX"], false, "__stdcall"),
        ext_sym("getenv", vec![areg("RDI")], &["RAX"], false, "__stdcall"),
        ext_sym("strchr", vec![areg("RDI"), areg4("RSI")], &["RAX"], false, "__stdcall"),
        ext_sym("tmpnam", vec![areg("RDI")], &["RAX", "RDX"], false, "__stdcall"),
        ext_sym("fopen", vec![areg("RCX"), areg("RDX")], &["RAX"], false, "__fastcall"),
    ]
}

fn other_pool() -> Vec<ExternSymbol> {
    vec![
        ext_sym("free", vec![areg("RDI")], &[], false, "__stdcall"),
        ext_sym("memcpy", vec![areg("RDI"), areg("RSI"), areg("RDX")], &["RAX"], false, "__stdcall"),
        ext_sym("rand", vec![], &["RAX"], false, "__stdcall"),
        ext_sym("use_esi", vec![areg4("RSI")], &[], false, "__stdcall"),
        ext_sym("ms_puts", vec![areg("RCX")], &["RAX"], false, "__fastcall"),
        ext_sym("exit", vec![areg("RDI")], &[], true, "__stdcall"),
        ext_sym("my_alloc", vec![areg("RDI")], &["RAX"], false, "__stdcall"),
        ext_sym(
            "stk_arg",
            vec![areg("RDI"), Arg::Stack { address: e_reg_off("RSP", 8), size: ByteSize::new(8), data_type: None }],
            &["RAX"],
            false,
            "__stdcall",
        ),
    ]
}

#[derive(Clone, Debug)]
enum JK {
    Branch,
    CBranch,
    Return,
    Ext(usize),
    Src(usize),
    Int(usize),
    Ind,
    BranchInd,
    DeadEnd,
}

struct Gen<'a> {
    rng: &'a mut Rng,
    ctr: u32,
    pool: &'static [&'static str],
}

impl<'a> Gen<'a> {
    fn t(&mut self, p: &str) -> Tid {
        self.ctr += 1;
        let a = 0x1000 + self.ctr * 3;
        tid(&format!("{p}_{a:x}"), &format!("{a:08x}"))
    }
    fn r(&mut self) -> &'static str {
        *self.rng.pick(self.pool)
    }
    fn r_other(&mut self, not: &str) -> &'static str {
        for _ in 0..8 {
            let r = self.r();
            if r != not {
                return r;
            }
        }
        if not == "R10" {
            "RBX"
        } else {
            "R10"
        }
    }
    fn small(&mut self) -> i64 {
        *self.rng.pick(&[1i64, 4, 8, 16, 24, -8, 0x20, 0x100])
    }
    /// 8-byte value expression over registers (and the block's 8-byte temporary if defined).
    fn val(&mut self, t8: &Option<Variable>) -> Expression {
        use BinOpType::*;
        match self.rng.below(12) {
            0..=2 => e_reg(self.r()),
            3 | 4 => {
                let c = self.small();
                e_bin(*self.rng.pick(&[IntAdd, IntSub, IntAdd]), e_reg(self.r()), e_const(c, 8))
            }
            5 => {
                let a = self.r();
                let b = self.r_other(a);
                e_bin(*self.rng.pick(&[IntAdd, IntSub, IntXOr, IntAnd, IntOr]), e_reg(a), e_reg(b))
            }
            6 => e_cast(CastOpType::IntZExt, 8, e_subpiece(0, 4, e_reg(self.r()))),
            7 => {
                let a = self.r();
                let b = self.r_other(a);
                e_bin(IntAdd, e_reg(a), e_bin(IntMult, e_reg(b), e_const(*self.rng.pick(&[4i64, 8]), 8)))
            }
            8 => e_const(self.rng.range_i64(0, 64), 8),
            9 => match t8 {
                Some(v) => e_var(v),
                None => e_reg(self.r()),
            },
            10 => e_un(*self.rng.pick(&[UnOpType::Int2Comp, UnOpType::IntNegate]), e_reg(self.r())),
            _ => e_bin(IntLeft, e_reg(self.r()), e_const(*self.rng.pick(&[1i64, 3]), 1)),
        }
    }
    /// 1-byte expression (for flags and conditions).
    fn cmp(&mut self) -> Expression {
        use BinOpType::*;
        match self.rng.below(8) {
            0..=2 => e_bin(IntEqual, e_reg(self.r()), e_const(0, 8)),
            3 => e_bin(IntNotEqual, e_reg(self.r()), e_const(0, 8)),
            4 => {
                let a = self.r();
                let b = self.r_other(a);
                e_bin(*self.rng.pick(&[IntLess, IntSLess, IntEqual]), e_reg(a), e_reg(b))
            }
            5 => e_bin(IntEqual, e_bin(IntAnd, e_reg(self.r()), e_const(7, 8)), e_const(0, 8)),
            6 => e_bin(IntEqual, e_subpiece(0, 4, e_reg(self.r())), e_const(0, 4)),
            _ => e_bin(IntSLess, e_reg(self.r()), e_const(*self.rng.pick(&[0i64, 1, 16]), 8)),
        }
    }
    fn addr(&mut self) -> Expression {
        match self.rng.below(8) {
            0..=2 => e_reg(self.r()),
            3 | 4 => {
                let c = self.small();
                e_reg_off(self.r(), c)
            }
            5 => {
                let a = self.r();
                let b = self.r_other(a);
                e_bin(BinOpType::IntAdd, e_reg(a), e_bin(BinOpType::IntMult, e_reg(b), e_const(8, 8)))
            }
            _ => e_reg_off(*self.rng.pick(&["RSP", "RBP"]), *self.rng.pick(&[8i64, 16, -8, -16, 0])),
        }
    }
    fn cond(&mut self, t1: &Option<Variable>) -> Expression {
        match self.rng.below(10) {
            0..=3 => e_var(&var(*self.rng.pick(FLAGS2), 1)),
            4 | 5 => e_un(UnOpType::BoolNegate, e_var(&var(*self.rng.pick(FLAGS2), 1))),
            6 => match t1 {
                Some(v) => e_var(v),
                None => self.cmp(),
            },
            _ => self.cmp(),
        }
    }
    fn defs(&mut self, n: usize, t8: &mut Option<Variable>, t1: &mut Option<Variable>, out: &mut Vec<Term<Def>>) {
        for _ in 0..n {
            let t = self.t("def");
            match self.rng.below(20) {
                0..=3 => {
                    let a = self.r();
                    let b = self.r_other(a);
                    out.push(assign(t, reg(a), e_reg(b)));
                }
                4..=6 => {
                    let v = self.val(t8);
                    out.push(assign(t, reg(self.r()), v));
                }
                7 => out.push(assign(t, reg(self.r()), e_const(self.rng.range_i64(0, 9), 8))),
                8..=10 => {
                    let c = self.cmp();
                    out.push(assign(t, var(*self.rng.pick(FLAGS2), 1), c));
                }
                11..=13 => {
                    let a = self.addr();
                    out.push(load(t, reg(self.r()), a));
                }
                14 | 15 => {
                    let a = self.addr();
                    let v = if self.rng.chance(1, 4) { self.cmp() } else { self.val(t8) };
                    out.push(store(t, a, v));
                }
                16 => {
                    let v = tmp(&format!("$U{}", self.ctr), 8);
                    let e = self.val(t8);
                    out.push(assign(t, v.clone(), e));
                    *t8 = Some(v);
                }
                17 => {
                    let v = tmp(&format!("$U{}", self.ctr), 1);
                    let e = self.cmp();
                    out.push(assign(t, v.clone(), e));
                    *t1 = Some(v);
                }
                18 => {
                    // self-dependent update
                    let a = self.r();
                    let c = self.small();
                    out.push(assign(t, reg(a), e_reg_off(a, c)));
                }
                _ => {
                    // load into a temporary
                    let v = tmp(&format!("$U{}", self.ctr), 8);
                    let a = self.addr();
                    out.push(load(t, v.clone(), a));
                    *t8 = Some(v);
                }
            }
        }
    }
}

pub struct GenCfg {
    pub max_blocks: usize,
    pub max_defs: usize,
    /// register pool (few registers: copies, checks and dereferences meet each other much more often)
    pub pool: &'static [&'static str],
    /// probability (out of 8) that a sub other than main is annotated with the second calling convention
    pub fastcall_of_8: u64,
}

const R_DENSE: &[&str] = &["RAX", "RAX", "RBX", "RCX", "R12"];
/// registers whose role differs between the two calling conventions (RDI/RSI: parameter vs callee-saved)
const R_CCONV: &[&str] = &["RAX", "RAX", "RSI", "RDI", "RBX", "R10", "RCX"];

/// Generate a raw (not yet normalised) project.
pub fn gen_project(rng: &mut Rng, gc: &GenCfg) -> Project {
    let mut g = Gen { rng, ctr: 0, pool: gc.pool };
    // extern table
    let mut srcs = source_pool();
    g.rng.shuffle(&mut srcs);
    srcs.truncate(g.rng.range_usize(1, 2));
    let mut others = other_pool();
    g.rng.shuffle(&mut others);
    others.truncate(g.rng.range_usize(2, 5));
    let n_subs = *g.rng.pick(&[1usize, 2, 2, 3]);
    let names = ["main", "fa", "fb"];
    let sub_tids: Vec<Tid> = (0..n_subs).map(|i| tid(&format!("sub_{}", names[i]), &format!("{:08x}", 0x100000 * (i + 1)))).collect();
    let nblocks: Vec<usize> = (0..n_subs).map(|_| g.rng.range_usize(1, gc.max_blocks)).collect();
    // jump plan
    let mut plan: Vec<Vec<JK>> = Vec::new();
    for s in 0..n_subs {
        let n = nblocks[s];
        let mut p = Vec::new();
        for i in 0..n {
            let last = i + 1 == n;
            let k = match g.rng.below(22) {
                0..=2 => JK::Branch,
                3..=8 => JK::CBranch,
                9..=11 => JK::Return,
                12..=14 => JK::Ext(g.rng.usize_below(others.len())),
                15 | 16 if n_subs > 1 => {
                    // mostly another sub, sometimes recursion
                    let mut c = g.rng.usize_below(n_subs);
                    if c == s && !g.rng.chance(1, 4) {
                        c = (s + 1) % n_subs;
                    }
                    JK::Int(c)
                }
                17 | 18 => JK::Ind,
                19 if n >= 3 => JK::BranchInd,
                20 => JK::DeadEnd,
                _ => {
                    if last {
                        JK::Return
                    } else {
                        JK::CBranch
                    }
                }
            };
            p.push(k);
        }
        plan.push(p);
    }
    // sources
    let n_src = g.rng.range_usize(1, 3);
    let mut src_slots: BTreeMap<(usize, usize), usize> = BTreeMap::new();
    for _ in 0..n_src {
        let s = if g.rng.chance(2, 3) { 0 } else { g.rng.usize_below(n_subs) };
        let b = g.rng.usize_below(nblocks[s]);
        let which = g.rng.usize_below(srcs.len());
        plan[s][b] = JK::Src(which);
        src_slots.insert((s, b), which);
    }
    // build the subs
    let mut subs = Vec::new();
    for s in 0..n_subs {
        let n = nblocks[s];
        let btids: Vec<Tid> = (0..n).map(|i| tid(&format!("blk_{}_{i}", names[s]), &format!("{:08x}", 0x100000 * (s + 1) + 0x1000 * (i + 1)))).collect();
        let mut blocks = Vec::new();
        let mut pattern_blocks: BTreeSet<usize> = BTreeSet::new();
        // first pass: decide targets so that the pattern blocks are known
        let mut targets: Vec<(usize, usize, bool)> = Vec::new(); // (t1, t2, has_return_site)
        for i in 0..n {
            let pick = |rng: &mut Rng| -> usize {
                if i + 1 < n && rng.chance(3, 4) {
                    rng.range_usize(i + 1, n - 1)
                } else {
                    rng.usize_below(n)
                }
            };
            let t1 = pick(g.rng);
            let t2 = pick(g.rng);
            let has_ret = match plan[s][i] {
                JK::Src(_) => true,
                _ => !g.rng.chance(1, 7),
            };
            if let JK::Src(_) = plan[s][i] {
                if g.rng.chance(1, 2) {
                    pattern_blocks.insert(t1);
                }
            }
            targets.push((t1, t2, has_ret));
        }
        for i in 0..n {
            let mut t8: Option<Variable> = None;
            let mut t1v: Option<Variable> = None;
            let mut defs = Vec::new();
            let mut kind = plan[s][i].clone();
            if pattern_blocks.contains(&i) {
                // canonical shapes after an allocation: optional copy, NULL test into a flag
                if g.rng.chance(1, 2) {
                    let keep = *g.rng.pick(&["RBX", "R12", "RCX", "RDI"]);
                    defs.push(assign(g.t("def"), reg(keep), e_reg("RAX")));
                }
                if g.rng.chance(3, 4) {
                    let tested = *g.rng.pick(&["RAX", "RAX", "RBX", "R12"]);
                    let op = *g.rng.pick(&[BinOpType::IntEqual, BinOpType::IntNotEqual]);
                    defs.push(assign(g.t("def"), var("ZF", 1), e_bin(op, e_reg(tested), e_const(0, 8))));
                }
            }
            let nd = g.rng.range_usize(0, gc.max_defs);
            g.defs(nd, &mut t8, &mut t1v, &mut defs);
            if pattern_blocks.contains(&i) && !matches!(kind, JK::Src(_)) && g.rng.chance(1, 2) {
                kind = JK::CBranch;
            }
            let (t1, t2, has_ret) = targets[i];
            let ret = if has_ret { Some(btids[t1].clone()) } else { None };
            let mut jmps = Vec::new();
            let mut indirect = Vec::new();
            match kind {
                JK::Branch => jmps.push(jmp(g.t("jmp"), Jmp::Branch(btids[t1].clone()))),
                JK::CBranch => {
                    let c = if pattern_blocks.contains(&i) && g.rng.chance(2, 3) {
                        if g.rng.bool() {
                            e_var(&var("ZF", 1))
                        } else {
                            e_un(UnOpType::BoolNegate, e_var(&var("ZF", 1)))
                        }
                    } else {
                        g.cond(&t1v)
                    };
                    jmps.push(jmp(g.t("jmp"), Jmp::CBranch { target: btids[t1].clone(), condition: c }));
                    jmps.push(jmp(g.t("jmp"), Jmp::Branch(btids[t2].clone())));
                }
                JK::Return => jmps.push(jmp(g.t("ret"), Jmp::Return(e_const(0, 8)))),
                JK::Ext(k) => jmps.push(jmp(g.t("call"), Jmp::Call { target: others[k].tid.clone(), return_: ret })),
                JK::Src(k) => jmps.push(jmp(g.t("call"), Jmp::Call { target: srcs[k].tid.clone(), return_: ret })),
                JK::Int(c) => jmps.push(jmp(g.t("call"), Jmp::Call { target: sub_tids[c].clone(), return_: ret })),
                JK::Ind => {
                    let target = if g.rng.bool() { e_reg(g.r()) } else { e_const(0x400000 + g.rng.range_i64(0, 64) * 16, 8) };
                    jmps.push(jmp(g.t("call"), Jmp::CallInd { target, return_: ret }));
                }
                JK::BranchInd => {
                    jmps.push(jmp(g.t("jmp"), Jmp::BranchInd(e_reg(g.r()))));
                    indirect.push(btids[t1].clone());
                    if t2 != t1 {
                        indirect.push(btids[t2].clone());
                    }
                }
                JK::DeadEnd => (),
            }
            let mut b = blk(btids[i].clone(), defs, jmps);
            b.term.indirect_jmp_targets = indirect;
            blocks.push(b);
        }
        let mut st = sub(sub_tids[s].clone(), names[s], blocks);
        if s > 0 && g.rng.chance(gc.fastcall_of_8, 8) {
            st.term.calling_convention = Some("__fastcall".to_string());
        }
        subs.push(st);
    }
    let entry = sub_tids[0].clone();
    let mut externs = srcs;
    externs.extend(others);
    let mut project = project_x64(program(subs, externs, Some(entry)));
    project.calling_conventions.insert("__fastcall".to_string(), cconv_ms());
    for n in ["R8", "R9", "R10", "R11", "R12", "R13", "R14", "R15"] {
        project.register_set.insert(reg(n));
    }
    project
}


/// Template workload for the join situation: two arms move/copy/overwrite the value differently, the join block
/// checks one register, the successors dereference / pass on one register. Optional back edges.
pub fn gen_diamond(rng: &mut Rng) -> Project {
    let mut g = Gen { rng, ctr: 0, pool: R_DENSE };
    let mut srcs = source_pool();
    g.rng.shuffle(&mut srcs);
    srcs.truncate(1);
    let free = ext_sym("free", vec![areg("RDI")], &[], false, "__stdcall");
    let rand = ext_sym("rand", vec![], &["RAX"], false, "__stdcall");
    let main_t = tid("sub_main", "00100000");
    let top_t = tid("sub_top", "00200000");
    let b: Vec<Tid> = (0..8).map(|i| tid(&format!("blk_main_{i}"), &format!("{:08x}", 0x100000 + 0x1000 * (i + 1)))).collect();
    const CLEAN: &[&str] = &["RSI", "R10", "RDX"];
    let clean_cond = |g: &mut Gen| -> Expression {
        match g.rng.below(3) {
            0 => e_var(&var("CF", 1)),
            1 => e_bin(BinOpType::IntEqual, e_reg(*g.rng.pick(CLEAN)), e_const(0, 8)),
            _ => e_bin(BinOpType::IntLess, e_reg(*g.rng.pick(CLEAN)), e_const(16, 8)),
        }
    };
    let moves = |g: &mut Gen, n: usize, out: &mut Vec<Term<Def>>| {
        for _ in 0..n {
            let a = g.r();
            let c = g.r_other(a);
            match g.rng.below(8) {
                0..=2 => out.push(assign(g.t("def"), reg(a), e_reg(c))),
                3 => {
                    // move: copy then clear the origin
                    out.push(assign(g.t("def"), reg(a), e_reg(c)));
                    out.push(assign(g.t("def"), reg(c), e_const(0, 8)));
                }
                4 => out.push(assign(g.t("def"), reg(a), e_const(g.rng.range_i64(0, 3), 8))),
                5 => {
                    let k = g.small();
                    out.push(assign(g.t("def"), reg(a), e_reg_off(c, k)));
                }
                6 => out.push(load(g.t("def"), reg(*g.rng.pick(CLEAN)), e_reg_off(*g.rng.pick(&["RSP", "RBP"]), 16))),
                _ => out.push(assign(g.t("def"), var("CF", 1), e_bin(BinOpType::IntLess, e_reg(*g.rng.pick(CLEAN)), e_const(5, 8)))),
            }
        }
    };
    let use_block = |g: &mut Gen, next: Option<Tid>, defs: &mut Vec<Term<Def>>, jmps: &mut Vec<Term<Jmp>>| {
        let r = g.r();
        match g.rng.below(7) {
            0 | 1 => defs.push(load(g.t("def"), reg(*g.rng.pick(CLEAN)), e_reg_off(r, *g.rng.pick(&[0i64, 8, 16])))),
            2 => defs.push(store(g.t("def"), e_reg(r), e_const(0, 8))),
            3 => {
                defs.push(assign(g.t("def"), reg("RDI"), e_reg(r)));
                jmps.push(jmp(g.t("call"), Jmp::Call { target: free.tid.clone(), return_: next.clone() }));
                return;
            }
            4 => {
                defs.push(assign(g.t("def"), reg("RAX"), e_reg(r)));
                jmps.push(jmp(g.t("ret"), Jmp::Return(e_const(0, 8))));
                return;
            }
            5 => {
                defs.push(assign(g.t("def"), reg("RSI"), e_reg(r)));
                jmps.push(jmp(g.t("call"), Jmp::CallInd { target: e_reg("R10"), return_: next.clone() }));
                return;
            }
            _ => (),
        }
        if let Some(n) = next {
            jmps.push(jmp(g.t("jmp"), Jmp::Branch(n)));
        }
    };
    let mut blocks = Vec::new();
    // b0: source
    let mut d0 = Vec::new();
    let n0 = g.rng.usize_below(2);
    moves(&mut g, n0, &mut d0);
    blocks.push(blk(b[0].clone(), d0, vec![jmp(g.t("call"), Jmp::Call { target: srcs[0].tid.clone(), return_: Some(b[1].clone()) })]));
    // b1: split
    let mut d1 = Vec::new();
    let n1 = g.rng.usize_below(3);
    moves(&mut g, n1, &mut d1);
    let c1 = clean_cond(&mut g);
    blocks.push(blk(b[1].clone(), d1, vec![jmp(g.t("jmp"), Jmp::CBranch { target: b[2].clone(), condition: c1 }), jmp(g.t("jmp"), Jmp::Branch(b[3].clone()))]));
    // arms
    for arm in [2usize, 3] {
        let mut d = Vec::new();
        let n = g.rng.usize_below(4);
        moves(&mut g, n, &mut d);
        let j = if g.rng.chance(1, 6) {
            jmp(g.t("call"), Jmp::Call { target: rand.tid.clone(), return_: Some(b[4].clone()) })
        } else {
            jmp(g.t("jmp"), Jmp::Branch(b[4].clone()))
        };
        blocks.push(blk(b[arm].clone(), d, vec![j]));
    }
    // join with a check
    let mut d4 = Vec::new();
    let n4 = g.rng.usize_below(2);
    moves(&mut g, n4, &mut d4);
    let checked = g.r();
    let cond = match g.rng.below(6) {
        0 | 1 => {
            d4.push(assign(g.t("def"), var("ZF", 1), e_bin(BinOpType::IntEqual, e_reg(checked), e_const(0, 8))));
            if g.rng.bool() {
                e_var(&var("ZF", 1))
            } else {
                e_un(UnOpType::BoolNegate, e_var(&var("ZF", 1)))
            }
        }
        2 | 3 => e_bin(*g.rng.pick(&[BinOpType::IntEqual, BinOpType::IntNotEqual]), e_reg(checked), e_const(0, 8)),
        4 => clean_cond(&mut g),
        _ => e_bin(BinOpType::IntLess, e_reg(checked), e_reg(*g.rng.pick(CLEAN))),
    };
    blocks.push(blk(b[4].clone(), d4, vec![jmp(g.t("jmp"), Jmp::CBranch { target: b[5].clone(), condition: cond }), jmp(g.t("jmp"), Jmp::Branch(b[6].clone()))]));
    // users
    for u in [5usize, 6] {
        let mut d = Vec::new();
        let mut j = Vec::new();
        let n = g.rng.usize_below(2);
        moves(&mut g, n, &mut d);
        let next = match g.rng.below(6) {
            0 => Some(b[1].clone()),
            1 => Some(b[4].clone()),
            2 | 3 => Some(b[7].clone()),
            _ => None,
        };
        use_block(&mut g, next, &mut d, &mut j);
        blocks.push(blk(b[u].clone(), d, j));
    }
    let mut d7 = Vec::new();
    let mut j7 = Vec::new();
    use_block(&mut g, None, &mut d7, &mut j7);
    blocks.push(blk(b[7].clone(), d7, j7));
    let main = sub(main_t.clone(), "main", blocks);
    let top = sub(
        top_t.clone(),
        "top",
        vec![
            blk(tid("blk_top_0", "00201000"), vec![], vec![jmp(g.t("call"), Jmp::Call { target: main_t.clone(), return_: Some(tid("blk_top_1", "00202000")) })]),
            blk(tid("blk_top_1", "00202000"), vec![], vec![jmp(g.t("ret"), Jmp::Return(e_const(0, 8)))]),
        ],
    );
    let mut subs = vec![main];
    if g.rng.chance(2, 3) {
        subs.push(top);
    }
    let mut externs = srcs;
    externs.push(free);
    externs.push(rand);
    let mut project = project_x64(program(subs, externs, Some(main_t)));
    project.calling_conventions.insert("__fastcall".to_string(), cconv_ms());
    project
}


/// Template workload for the calling-convention clauses: the value is parked in one register, a call of every
/// kind (extern under either convention, internal callee under either convention, returning or not, indirect)
/// follows, and the return site uses the parked register or the return register.
pub fn gen_cconv_template(rng: &mut Rng) -> Project {
    let mut g = Gen { rng, ctr: 0, pool: R_CCONV };
    let mut srcs = source_pool();
    g.rng.shuffle(&mut srcs);
    srcs.truncate(1);
    let others = other_pool();
    let main_t = tid("sub_main", "00100000");
    let fa_t = tid("sub_fa", "00200000");
    let b: Vec<Tid> = (0..4).map(|i| tid(&format!("blk_main_{i}"), &format!("{:08x}", 0x100000 + 0x1000 * (i + 1)))).collect();
    const PARK: &[&str] = &["RBX", "R12", "RDI", "RSI", "RCX", "RDX", "R8", "R9", "R10", "RBP", "R13"];
    let park = *g.rng.pick(PARK);
    let mut d1 = vec![assign(g.t("def"), reg(park), e_reg("RAX"))];
    if g.rng.bool() {
        d1.push(assign(g.t("def"), reg("RAX"), e_const(0, 8)));
    }
    if g.rng.chance(1, 3) {
        let second = *g.rng.pick(PARK);
        if second != park {
            d1.push(assign(g.t("def"), reg(second), e_const(1, 8)));
        }
    }
    let ret = if g.rng.chance(1, 8) { None } else { Some(b[2].clone()) };
    let call = match g.rng.below(6) {
        0 | 1 => Jmp::Call { target: fa_t.clone(), return_: ret },
        2 => Jmp::CallInd { target: e_reg("R11"), return_: ret },
        _ => Jmp::Call { target: g.rng.pick(&others).tid.clone(), return_: ret },
    };
    let used = if g.rng.chance(3, 4) { park } else { *g.rng.pick(PARK) };
    let mut d2 = Vec::new();
    let mut j2 = Vec::new();
    match g.rng.below(5) {
        0 | 1 => d2.push(load(g.t("def"), reg("R11"), e_reg_off(used, 8))),
        2 => d2.push(store(g.t("def"), e_reg(used), e_const(0, 8))),
        3 => {
            d2.push(assign(g.t("def"), reg(*g.rng.pick(&["RDI", "RCX", "RSI"])), e_reg(used)));
            j2.push(jmp(g.t("call"), Jmp::Call { target: g.rng.pick(&others).tid.clone(), return_: Some(b[3].clone()) }));
        }
        _ => {
            d2.push(assign(g.t("def"), reg(*g.rng.pick(&["RAX", "RDX", "RCX"])), e_reg(used)));
            j2.push(jmp(g.t("ret"), Jmp::Return(e_const(0, 8))));
        }
    }
    let main_blocks = vec![
        blk(b[0].clone(), vec![], vec![jmp(g.t("call"), Jmp::Call { target: srcs[0].tid.clone(), return_: Some(b[1].clone()) })]),
        blk(b[1].clone(), d1, vec![jmp(g.t("call"), call)]),
        blk(b[2].clone(), d2, j2),
        blk(b[3].clone(), vec![], vec![]),
    ];
    let mut main = sub(main_t.clone(), "main", main_blocks);
    // fa: returns (or not), calls main back in one variant so that main has an internal caller with return site
    let fa0 = tid("blk_fa_0", "00201000");
    let fa1 = tid("blk_fa_1", "00202000");
    let fa_blocks = match g.rng.below(4) {
        0 => vec![blk(fa0, vec![], vec![])],
        1 => vec![
            blk(fa0, vec![], vec![jmp(g.t("call"), Jmp::Call { target: main_t.clone(), return_: Some(fa1.clone()) })]),
            blk(fa1, vec![], vec![jmp(g.t("ret"), Jmp::Return(e_const(0, 8)))]),
        ],
        _ => vec![blk(fa0, vec![assign(g.t("def"), reg("RAX"), e_const(0, 8))], vec![jmp(g.t("ret"), Jmp::Return(e_const(0, 8)))])],
    };
    let mut fa = sub(fa_t, "fa", fa_blocks);
    if g.rng.bool() {
        fa.term.calling_convention = Some("__fastcall".to_string());
    }
    if g.rng.chance(1, 4) {
        main.term.calling_convention = Some("__fastcall".to_string());
    }
    let mut externs = srcs;
    externs.extend(others);
    let mut project = project_x64(program(vec![main, fa], externs, Some(main_t)));
    project.calling_conventions.insert("__fastcall".to_string(), cconv_ms());
    project
}

// ---------------------------------------------------------------------------------------------
// Reference model

fn vars_of(e: &Expression, out: &mut Vec<Variable>) {
    match e {
        Expression::Var(v) => out.push(v.clone()),
        Expression::Const(_) | Expression::Unknown { .. } => (),
        Expression::BinOp { lhs, rhs, .. } => {
            vars_of(lhs, out);
            vars_of(rhs, out);
        }
        Expression::UnOp { arg, .. } | Expression::Cast { arg, .. } | Expression::Subpiece { arg, .. } => vars_of(arg, out),
    }
}

struct SubM<'a> {
    term: &'a Term<Sub>,
    blk_ix: BTreeMap<Tid, usize>,
    param_mask: u64,
    ret_mask: u64,
    saved_mask: u64,
    has_return_instr: bool,
    can_return: bool,
    called_with_return_site: bool,
}

#[derive(Clone, Debug)]
pub struct SourceSite {
    pub sub: usize,
    pub blk: usize,
    pub tid: String,
    pub address: String,
    pub symbol: String,
    pub ret_blk: Option<usize>,
    pub ret_mask: u64,
}

#[derive(Default, Clone, Debug)]
pub struct Found {
    /// sink tid -> kind, in discovery order
    pub sinks: Vec<(String, &'static str)>,
    pub kills_taken: u32,
    pub kills_untaken: u32,
    pub drops: u32,
    pub overwrites: u32,
    pub revisits: u32,
    /// union of the taint masks at the end of each block (before the jumps)
    pub m_end: Vec<u64>,
    pub tainted_stores: Vec<Tid>,
    pub states: usize,
    pub capped: bool,
    pub doubtful_callee: bool,
    pub odd_shape: bool,
}

impl Found {
    fn flagged(&self) -> bool {
        !self.sinks.is_empty()
    }
    fn add_sink(&mut self, t: &Tid, kind: &'static str) {
        let s = format!("{t}");
        if !self.sinks.iter().any(|(x, _)| *x == s) {
            self.sinks.push((s, kind));
        }
    }
}

pub struct Model<'a> {
    project: &'a Project,
    vars: BTreeMap<Variable, u32>,
    subs: Vec<SubM<'a>>,
    sub_ix: BTreeMap<Tid, usize>,
    configured: &'a BTreeSet<String>,
}

struct Opts<'o> {
    /// additionally end a path at a conditional jump whose condition reads one of these (per block end)
    extra_kill: Option<&'o [u64]>,
    /// extern/indirect calls without return site count as sinks
    noret_call_sinks: bool,
}

const MAX_STATES: usize = 300_000;

impl<'a> Model<'a> {
    pub fn new(project: &'a Project, configured: &'a BTreeSet<String>) -> Result<Model<'a>, String> {
        let mut all: Vec<Variable> = Vec::new();
        let prog = &project.program.term;
        for sub in prog.subs.values() {
            for b in &sub.term.blocks {
                for d in &b.term.defs {
                    match &d.term {
                        Def::Assign { var, value } => {
                            all.push(var.clone());
                            vars_of(value, &mut all);
                        }
                        Def::Load { var, address } => {
                            all.push(var.clone());
                            vars_of(address, &mut all);
                        }
                        Def::Store { address, value } => {
                            vars_of(address, &mut all);
                            vars_of(value, &mut all);
                        }
                    }
                }
                for j in &b.term.jmps {
                    if let Jmp::CBranch { condition, .. } = &j.term {
                        vars_of(condition, &mut all);
                    }
                }
            }
        }
        for e in prog.extern_symbols.values() {
            for a in e.parameters.iter().chain(e.return_values.iter()) {
                match a {
                    Arg::Register { expr, .. } => vars_of(expr, &mut all),
                    Arg::Stack { .. } => (),
                }
            }
        }
        for c in project.calling_conventions.values() {
            all.extend(c.integer_parameter_register.iter().cloned());
            all.extend(c.integer_return_register.iter().cloned());
            all.extend(c.callee_saved_register.iter().cloned());
        }
        let mut vars = BTreeMap::new();
        for v in all {
            let n = vars.len() as u32;
            vars.entry(v).or_insert(n);
        }
        if vars.len() > 64 {
            return Err("more than 64 variables".into());
        }
        let mut m = Model { project, vars, subs: Vec::new(), sub_ix: BTreeMap::new(), configured };
        for (i, (t, sub)) in prog.subs.iter().enumerate() {
            m.sub_ix.insert(t.clone(), i);
            let cc = m.cconv_of(&sub.term.calling_convention)?;
            let sm = SubM {
                term: sub,
                blk_ix: sub.term.blocks.iter().enumerate().map(|(k, b)| (b.tid.clone(), k)).collect(),
                param_mask: m.mask_vars(&cc.integer_parameter_register),
                ret_mask: m.mask_vars(&cc.integer_return_register),
                saved_mask: m.mask_vars(&cc.callee_saved_register),
                has_return_instr: sub.term.blocks.iter().any(|b| b.term.jmps.iter().any(|j| matches!(j.term, Jmp::Return(_)))),
                can_return: false,
                called_with_return_site: false,
            };
            m.subs.push(sm);
        }
        // internal callers with a return site
        let mut called: Vec<bool> = vec![false; m.subs.len()];
        for sub in prog.subs.values() {
            for b in &sub.term.blocks {
                for j in &b.term.jmps {
                    if let Jmp::Call { target, return_: Some(_) } = &j.term {
                        if let Some(ix) = m.sub_ix.get(target) {
                            called[*ix] = true;
                        }
                    }
                }
            }
        }
        for (i, c) in called.into_iter().enumerate() {
            m.subs[i].called_with_return_site = c;
        }
        // which subs can return: least fixpoint of "a Return block is reachable from the entry"
        loop {
            let mut changed = false;
            for i in 0..m.subs.len() {
                if !m.subs[i].can_return && m.return_reachable(i) {
                    m.subs[i].can_return = true;
                    changed = true;
                }
            }
            if !changed {
                break;
            }
        }
        Ok(m)
    }

    fn cconv_of(&self, name: &Option<String>) -> Result<&'a CallingConvention, String> {
        let std = self.project.calling_conventions.get("__stdcall").ok_or("no __stdcall convention")?;
        Ok(match name {
            Some(n) => self.project.calling_conventions.get(n).unwrap_or(std),
            None => std,
        })
    }

    fn bit(&self, v: &Variable) -> u64 {
        match self.vars.get(v) {
            Some(i) => 1u64 << i,
            None => 0,
        }
    }
    fn mask_vars(&self, vs: &[Variable]) -> u64 {
        vs.iter().fold(0, |m, v| m | self.bit(v))
    }
    fn reads(&self, e: &Expression) -> u64 {
        let mut v = Vec::new();
        vars_of(e, &mut v);
        self.mask_vars(&v)
    }
    fn names(&self, mask: u64) -> Vec<String> {
        self.vars.iter().filter(|(_, i)| mask & (1u64 << **i) != 0).map(|(v, _)| v.name.clone()).collect()
    }

    /// Successor blocks by which control can continue inside the sub (ignoring taint).
    fn flow_succs(&self, s: usize, b: usize) -> Vec<usize> {
        let sm = &self.subs[s];
        let blk = &sm.term.term.blocks[b];
        let mut out = Vec::new();
        let mut push = |t: &Tid| {
            if let Some(i) = sm.blk_ix.get(t) {
                out.push(*i);
            }
        };
        for j in &blk.term.jmps {
            match &j.term {
                Jmp::Branch(t) | Jmp::CBranch { target: t, .. } => push(t),
                Jmp::BranchInd(_) => blk.term.indirect_jmp_targets.iter().for_each(&mut push),
                Jmp::Call { target, return_: Some(r) } => {
                    if let Some(e) = self.project.program.term.extern_symbols.get(target) {
                        if !e.no_return {
                            push(r);
                        }
                    } else if let Some(c) = self.sub_ix.get(target) {
                        if self.subs[*c].can_return {
                            push(r);
                        }
                    }
                }
                Jmp::CallInd { return_: Some(r), .. } => push(r),
                _ => (),
            }
        }
        out
    }

    fn return_reachable(&self, s: usize) -> bool {
        let sm = &self.subs[s];
        if sm.term.term.blocks.is_empty() {
            return false;
        }
        let mut seen = vec![false; sm.term.term.blocks.len()];
        let mut stack = vec![0usize];
        seen[0] = true;
        while let Some(b) = stack.pop() {
            if sm.term.term.blocks[b].term.jmps.iter().any(|j| matches!(j.term, Jmp::Return(_))) {
                return true;
            }
            for n in self.flow_succs(s, b) {
                if !seen[n] {
                    seen[n] = true;
                    stack.push(n);
                }
            }
        }
        false
    }

    /// All call sites of configured symbols.
    pub fn sources(&self) -> Vec<SourceSite> {
        let mut out = Vec::new();
        for (s, sm) in self.subs.iter().enumerate() {
            for (b, blk) in sm.term.term.blocks.iter().enumerate() {
                for j in &blk.term.jmps {
                    if let Jmp::Call { target, return_ } = &j.term {
                        if let Some(e) = self.project.program.term.extern_symbols.get(target) {
                            if self.configured.contains(&e.name) {
                                let mut rm = 0;
                                for a in &e.return_values {
                                    if let Arg::Register { expr, .. } = a {
                                        rm |= self.reads(expr);
                                    }
                                }
                                out.push(SourceSite {
                                    sub: s,
                                    blk: b,
                                    tid: format!("{}", j.tid),
                                    address: j.tid.address.clone(),
                                    symbol: e.name.clone(),
                                    ret_blk: return_.as_ref().and_then(|r| sm.blk_ix.get(r).copied()),
                                    ret_mask: rm,
                                });
                            }
                        }
                    }
                }
            }
        }
        out
    }

    /// Transfer of the defs of one block. Returns the mask at the block end.
    fn block_defs(&self, blk: &Term<Blk>, mut m: u64, f: &mut Found) -> u64 {
        for d in &blk.term.defs {
            match &d.term {
                Def::Assign { var, value } => {
                    let b = self.bit(var);
                    if self.reads(value) & m != 0 {
                        m |= b;
                    } else {
                        if m & b != 0 {
                            f.overwrites += 1;
                        }
                        m &= !b;
                    }
                }
                Def::Load { var, address } => {
                    if self.reads(address) & m != 0 {
                        f.add_sink(&d.tid, "load");
                    }
                    let b = self.bit(var);
                    if m & b != 0 {
                        f.overwrites += 1;
                    }
                    m &= !b;
                }
                Def::Store { address, value } => {
                    if self.reads(address) & m != 0 {
                        f.add_sink(&d.tid, "store");
                    }
                    if self.reads(value) & m != 0 {
                        f.tainted_stores.push(d.tid.clone());
                    }
                }
            }
            if m == 0 {
                break;
            }
        }
        m
    }

    /// What happens to a taint set at a call: Some((sink?, continuation)) where continuation = (return block, mask).
    fn call_effect(&self, s: usize, j: &Term<Jmp>, m: u64, f: &mut Found, opts: &Opts) -> Option<(usize, u64)> {
        let sm = &self.subs[s];
        match &j.term {
            Jmp::Call { target, return_ } => {
                if let Some(e) = self.project.program.term.extern_symbols.get(target) {
                    let mut pm = 0;
                    for a in &e.parameters {
                        if let Arg::Register { expr, .. } = a {
                            pm |= self.reads(expr);
                        }
                        // stack parameters live in memory: never tainted in the domain of the statement
                    }
                    let effective_ret = if e.no_return { None } else { return_.as_ref() };
                    if pm & m != 0 && (return_.is_some() || opts.noret_call_sinks) {
                        f.add_sink(&j.tid, if return_.is_some() { "extern-param" } else { "extern-param-noreturnsite" });
                    }
                    let cc = self.cconv_of(&e.calling_convention).ok()?;
                    let r = effective_ret.and_then(|r| sm.blk_ix.get(r))?;
                    let kept = m & self.mask_vars(&cc.callee_saved_register);
                    if kept != m {
                        f.drops += 1;
                    }
                    Some((*r, kept))
                } else if let Some(c) = self.sub_ix.get(target) {
                    let cm = &self.subs[*c];
                    if cm.param_mask & m != 0 {
                        f.add_sink(&j.tid, "internal-param");
                    }
                    let r = return_.as_ref().and_then(|r| sm.blk_ix.get(r))?;
                    if cm.has_return_instr != cm.can_return {
                        f.doubtful_callee = true;
                    }
                    if !cm.can_return {
                        return None;
                    }
                    let kept = m & cm.saved_mask;
                    if kept != m {
                        f.drops += 1;
                    }
                    Some((*r, kept))
                } else {
                    None
                }
            }
            Jmp::CallInd { return_, .. } => {
                let cc = self.cconv_of(&None).ok()?;
                if self.mask_vars(&cc.integer_parameter_register) & m != 0 && (return_.is_some() || opts.noret_call_sinks) {
                    f.add_sink(&j.tid, if return_.is_some() { "indirect-param" } else { "indirect-param-noreturnsite" });
                }
                let r = return_.as_ref().and_then(|r| sm.blk_ix.get(r))?;
                let kept = m & self.mask_vars(&cc.callee_saved_register);
                if kept != m {
                    f.drops += 1;
                }
                Some((*r, kept))
            }
            _ => None,
        }
    }

    /// Successor states of a taint set at the end of a block.
    fn block_jumps(&self, s: usize, b: usize, m: u64, f: &mut Found, opts: &Opts, out: &mut Vec<(usize, u64)>) {
        let sm = &self.subs[s];
        let blk = &sm.term.term.blocks[b];
        let extra = opts.extra_kill.map(|k| k[b]).unwrap_or(0);
        let jmps = &blk.term.jmps;
        if jmps.len() > 2 || (jmps.len() == 2 && !(matches!(jmps[0].term, Jmp::CBranch { .. }) && matches!(jmps[1].term, Jmp::Branch(_)))) {
            f.odd_shape = true;
            return;
        }
        let mut untaken_cond: Option<&Expression> = None;
        for j in jmps {
            match &j.term {
                Jmp::CBranch { target, condition } => {
                    untaken_cond = Some(condition);
                    if self.reads(condition) & (m | extra) != 0 {
                        if self.reads(condition) & m != 0 {
                            f.kills_taken += 1;
                        }
                        continue;
                    }
                    if let Some(t) = sm.blk_ix.get(target) {
                        out.push((*t, m));
                    }
                }
                Jmp::Branch(target) => {
                    if let Some(c) = untaken_cond {
                        if self.reads(c) & (m | extra) != 0 {
                            if self.reads(c) & m != 0 {
                                f.kills_untaken += 1;
                            }
                            continue;
                        }
                    }
                    if let Some(t) = sm.blk_ix.get(target) {
                        out.push((*t, m));
                    }
                }
                Jmp::BranchInd(_) => {
                    for t in &blk.term.indirect_jmp_targets {
                        if let Some(t) = sm.blk_ix.get(t) {
                            out.push((*t, m));
                        }
                    }
                }
                Jmp::Return(_) => {
                    if sm.called_with_return_site && sm.ret_mask & m != 0 {
                        f.add_sink(&j.tid, "return");
                    }
                }
                Jmp::Call { .. } | Jmp::CallInd { .. } => {
                    if let Some(next) = self.call_effect(s, j, m, f, opts) {
                        out.push(next);
                    }
                }
                Jmp::CallOther { .. } => f.odd_shape = true,
            }
        }
    }

    /// Path-wise explicit-state search from the return site of a source.
    fn search(&self, src: &SourceSite, opts: &Opts) -> Found {
        let sm = &self.subs[src.sub];
        let mut f = Found { m_end: vec![0; sm.term.term.blocks.len()], ..Default::default() };
        let Some(start) = src.ret_blk else { return f };
        if src.ret_mask == 0 {
            return f;
        }
        let mut seen: HashSet<(usize, u64)> = HashSet::new();
        let mut queue: Vec<(usize, u64)> = vec![(start, src.ret_mask)];
        seen.insert((start, src.ret_mask));
        let mut head = 0;
        let mut next = Vec::new();
        while head < queue.len() {
            let (b, m) = queue[head];
            head += 1;
            let blk = &sm.term.term.blocks[b];
            let m_end = self.block_defs(blk, m, &mut f);
            if m_end == 0 {
                continue;
            }
            f.m_end[b] |= m_end;
            next.clear();
            self.block_jumps(src.sub, b, m_end, &mut f, opts, &mut next);
            for st in next.iter() {
                if st.1 == 0 {
                    continue;
                }
                if seen.insert(*st) {
                    queue.push(*st);
                } else {
                    f.revisits += 1;
                }
            }
            if queue.len() > MAX_STATES {
                f.capped = true;
                break;
            }
        }
        f.states = queue.len();
        f
    }

    /// Blocks of the source's sub that control can reach from the return site (ignoring taint).
    fn reachable_blocks(&self, src: &SourceSite) -> Vec<usize> {
        let Some(start) = src.ret_blk else { return vec![] };
        let n = self.subs[src.sub].term.term.blocks.len();
        let mut seen = vec![false; n];
        let mut order = vec![start];
        seen[start] = true;
        let mut head = 0;
        while head < order.len() {
            let b = order[head];
            head += 1;
            for s in self.flow_succs_syntactic(src.sub, b) {
                if !seen[s] {
                    seen[s] = true;
                    order.push(s);
                }
            }
        }
        order
    }

    /// Like `flow_succs` but a call passes whenever it has a return site (over-approximation used for the
    /// acyclicity test only).
    fn flow_succs_syntactic(&self, s: usize, b: usize) -> Vec<usize> {
        let sm = &self.subs[s];
        let blk = &sm.term.term.blocks[b];
        let mut out = Vec::new();
        for j in &blk.term.jmps {
            match &j.term {
                Jmp::Branch(t) | Jmp::CBranch { target: t, .. } => out.extend(sm.blk_ix.get(t)),
                Jmp::BranchInd(_) => blk.term.indirect_jmp_targets.iter().for_each(|t| out.extend(sm.blk_ix.get(t))),
                Jmp::Call { return_: Some(r), .. } | Jmp::CallInd { return_: Some(r), .. } => out.extend(sm.blk_ix.get(r)),
                _ => (),
            }
        }
        out
    }

    /// Whole-program block graph as the analyser links it (jumps, call -> callee entry, callee return blocks ->
    /// every return site of calls to it, call -> return site). Returns for every (sub, block) whether it lies
    /// on a cycle.
    fn on_cycle(&self) -> Vec<Vec<bool>> {
        let offs: Vec<usize> = self
            .subs
            .iter()
            .scan(0usize, |acc, s| {
                let o = *acc;
                *acc += s.term.term.blocks.len();
                Some(o)
            })
            .collect();
        let total: usize = self.subs.iter().map(|s| s.term.term.blocks.len()).sum();
        let mut adj: Vec<Vec<usize>> = vec![Vec::new(); total];
        // return sites per callee
        let mut ret_sites: Vec<Vec<usize>> = vec![Vec::new(); self.subs.len()];
        for (s, sm) in self.subs.iter().enumerate() {
            for (b, blk) in sm.term.term.blocks.iter().enumerate() {
                for x in self.flow_succs_syntactic(s, b) {
                    adj[offs[s] + b].push(offs[s] + x);
                }
                for j in &blk.term.jmps {
                    if let Jmp::Call { target, return_ } = &j.term {
                        if let Some(c) = self.sub_ix.get(target) {
                            if !self.subs[*c].term.term.blocks.is_empty() {
                                adj[offs[s] + b].push(offs[*c]);
                            }
                            if let Some(r) = return_.as_ref().and_then(|r| sm.blk_ix.get(r)) {
                                ret_sites[*c].push(offs[s] + r);
                            }
                        }
                    }
                }
            }
        }
        for (s, sm) in self.subs.iter().enumerate() {
            for (b, blk) in sm.term.term.blocks.iter().enumerate() {
                if blk.term.jmps.iter().any(|j| matches!(j.term, Jmp::Return(_))) {
                    for r in &ret_sites[s] {
                        adj[offs[s] + b].push(*r);
                    }
                }
            }
        }
        // a node is on a cycle iff it can reach itself (graphs are tiny: plain DFS per node)
        let mut res: Vec<Vec<bool>> = self.subs.iter().map(|s| vec![false; s.term.term.blocks.len()]).collect();
        for (s, sm) in self.subs.iter().enumerate() {
            for b in 0..sm.term.term.blocks.len() {
                let me = offs[s] + b;
                let mut seen = vec![false; total];
                let mut stack: Vec<usize> = adj[me].clone();
                while let Some(x) = stack.pop() {
                    if x == me {
                        res[s][b] = true;
                        break;
                    }
                    if !seen[x] {
                        seen[x] = true;
                        stack.extend(adj[x].iter().copied());
                    }
                }
            }
        }
        res
    }

    /// Union-merging variant, blocks in topological order; `None` if the region reachable from the source is
    /// not acyclic in the interprocedural block graph. Result: is a sink reached.
    fn merged_acyclic(&self, src: &SourceSite, on_cycle: &[Vec<bool>]) -> Option<bool> {
        let start = src.ret_blk?;
        let reach = self.reachable_blocks(src);
        if reach.iter().any(|b| on_cycle[src.sub][*b]) {
            return None;
        }
        let n = self.subs[src.sub].term.term.blocks.len();
        // Kahn on the reachable region
        let mut in_reach = vec![false; n];
        reach.iter().for_each(|b| in_reach[*b] = true);
        let mut indeg = vec![0usize; n];
        for b in &reach {
            for s in self.flow_succs_syntactic(src.sub, *b) {
                indeg[s] += 1;
            }
        }
        let mut ready: Vec<usize> = reach.iter().copied().filter(|b| indeg[*b] == 0).collect();
        let mut value = vec![0u64; n];
        value[start] = src.ret_mask;
        let opts = Opts { extra_kill: None, noret_call_sinks: false };
        let mut out = Vec::new();
        while let Some(b) = ready.pop() {
            let mut f = Found::default();
            if value[b] != 0 {
                let m_end = self.block_defs(&self.subs[src.sub].term.term.blocks[b], value[b], &mut f);
                if f.flagged() {
                    return Some(true);
                }
                if m_end != 0 {
                    out.clear();
                    self.block_jumps(src.sub, b, m_end, &mut f, &opts, &mut out);
                    if f.flagged() {
                        return Some(true);
                    }
                    for (t, m) in out.iter() {
                        value[*t] |= *m;
                    }
                }
            }
            for s in self.flow_succs_syntactic(src.sub, b) {
                indeg[s] -= 1;
                if indeg[s] == 0 && in_reach[s] {
                    ready.push(s);
                }
            }
        }
        Some(false)
    }
}

// ---------------------------------------------------------------------------------------------
// Driving the real pipeline

/// Where the pipeline panicked.
#[derive(Debug)]
pub enum PipelineError {
    /// CFG construction, function signatures or pointer inference (prerequisites of the check)
    Prerequisite(String),
    /// inside the CWE476 module
    Module(String),
}

/// Run the analysis pipeline exactly like the CLI does after disassembly (the project is already normalised).
pub fn run_pipeline(project: &Project) -> Result<Vec<CweWarning>, PipelineError> {
    let config = shipped_config();
    let binary: Vec<u8> = Vec::new();
    let (graph, _logs) = guard(|| get_program_cfg_with_logs(&project.program)).map_err(PipelineError::Prerequisite)?;
    let results = AnalysisResults::new(&binary, &graph, project);
    let (sigs, _logs) = guard(|| results.compute_function_signatures()).map_err(PipelineError::Prerequisite)?;
    let results = results.with_function_signatures(Some(&sigs));
    let pi = guard(|| results.compute_pointer_inference(&config["Memory"], false)).map_err(PipelineError::Prerequisite)?;
    let results = results.with_pointer_inference(Some(&pi));
    let module = cwe_checker_lib::get_modules().into_iter().find(|m| m.name == "CWE476").expect("module CWE476 registered");
    let (_logs, cwes) = guard(|| (module.run)(&results, &config[module.name])).map_err(PipelineError::Module)?;
    Ok(cwes)
}

pub const KNOWN_JOIN_MERGE: &str = "c15-join-merge";
pub const KNOWN_NORET_CALL: &str = "c15-call-without-return-site";
pub const KNOWN_PI_PANIC: &str = "c15-pi-panic-nested-parameter-without-parent-object";

fn program_size(p: &Project) -> u64 {
    p.program.term.subs.values().map(|s| s.term.blocks.iter().map(|b| 1 + b.term.defs.len() as u64 + b.term.jmps.len() as u64).sum::<u64>()).sum()
}

/// Check one normalised project. Returns false if the case was not decided.
pub fn check_normalized(project: &Project, rep: &mut Report, want_sample: bool) -> bool {
    let configured = configured_symbols();
    let case = || json!({"project": project_to_json(project)});
    let size = program_size(project);
    let model = match Model::new(project, configured) {
        Ok(m) => m,
        Err(e) => {
            rep.inconclusive(&format!("model:{e}"));
            return false;
        }
    };
    let sources = model.sources();
    if sources.is_empty() {
        rep.inconclusive("no-source-after-normalisation");
        return false;
    }
    // reference searches
    let strict = Opts { extra_kill: None, noret_call_sinks: true };
    let mut p: Vec<Found> = Vec::new();
    for s in &sources {
        p.push(model.search(s, &strict));
    }
    if p.iter().any(|f| f.capped) {
        rep.inconclusive("state-cap");
        return false;
    }
    if p.iter().any(|f| !f.tainted_stores.is_empty()) {
        rep.inconclusive("tainted-value-stored-after-normalisation(outside-the-statement's-domain)");
        return false;
    }
    if p.iter().any(|f| f.odd_shape) {
        rep.inconclusive("block-shape-outside-domain");
        return false;
    }
    if p.iter().any(|f| f.doubtful_callee) {
        rep.inconclusive("callee-with-unreachable-return-instruction");
        return false;
    }
    // the implementation
    let warnings = match run_pipeline(project) {
        Ok(w) => w,
        Err(PipelineError::Module(msg)) => {
            rep.violation(
                format!("cwe476:panic:{}", panic_site(&msg)),
                None,
                format!("the CWE476 module panicked: {msg}\n{}", show_program(&project.program.term)),
                case(),
                size,
            );
            return true;
        }
        Err(PipelineError::Prerequisite(msg)) => {
            // Known finding (not a defect of the check itself): State::add_param stores a nested parameter into a
            // parent object that was never created.
            let known = msg.contains("Abstract object does not exist") && msg.contains("pointer_inference/state/mod.rs");
            rep.obs(if known { "prerequisite-panic:known" } else { "prerequisite-panic:other" });
            rep.violation(
                format!("prerequisite:panic:{}", panic_site(&msg)),
                if known { Some(KNOWN_PI_PANIC) } else { None },
                format!("an analysis the check depends on (CFG / function signatures / pointer inference) panicked, the check cannot run: {msg}\n{}", show_program(&project.program.term)),
                case(),
                size,
            );
            return true;
        }
    };
    let mut interesting = false;
    // well-formedness of every warning
    let mut got: BTreeMap<String, &CweWarning> = BTreeMap::new();
    for w in &warnings {
        let ok_shape = w.name == "CWE476" && w.addresses.len() == 2 && w.tids.len() == 2 && w.symbols.len() == 1;
        let src = if ok_shape { sources.iter().position(|s| s.tid == w.tids[0]) } else { None };
        match src {
            None => {
                rep.violation("warning:not-a-source-call", None, format!("warning does not name a call to a configured symbol as its source: {w:?}\n{}", show_program(&project.program.term)), case(), size);
                continue;
            }
            Some(i) => {
                let s = &sources[i];
                if w.addresses[0] != s.address || w.symbols[0] != s.symbol {
                    rep.violation("warning:wrong-source-address-or-symbol", None, format!("warning for source {} carries address {:?} / symbol {:?}, expected {} / {}", s.tid, w.addresses[0], w.symbols[0], s.address, s.symbol), case(), size);
                }
                if got.insert(s.tid.clone(), w).is_some() {
                    rep.violation("warning:duplicate-source", None, format!("two warnings for the same source call {}", s.tid), case(), size);
                }
                // the reported access must be a sink the reference search reaches from this source
                if p[i].flagged() && !p[i].sinks.iter().any(|(t, _)| *t == w.tids[1]) {
                    rep.violation(
                        "warning:reported-location-is-not-a-sink",
                        None,
                        format!("warning for source {} reports {} as the access, the reference search reaches only {:?}\n{}", s.tid, w.tids[1], p[i].sinks, show_program(&project.program.term)),
                        case(),
                        size,
                    );
                }
            }
        }
    }
    let on_cycle = model.on_cycle();
    for (i, s) in sources.iter().enumerate() {
        rep.eval();
        let f = &p[i];
        let expected = f.flagged();
        let observed = got.contains_key(&s.tid);
        // bookkeeping
        if f.flagged() || f.kills_taken + f.kills_untaken + f.drops > 0 {
            interesting = true;
        }
        for (_, k) in &f.sinks {
            rep.obs(&format!("sink:{k}"));
        }
        rep.obs(if expected { "source:flagged" } else { "source:clean" });
        if f.kills_taken > 0 {
            rep.obs("path-ended-by:check-on-taken-branch");
        }
        if f.kills_untaken > 0 {
            rep.obs("path-ended-by:check-on-untaken-branch");
        }
        if f.drops > 0 {
            rep.obs("taint-dropped-at-call");
        }
        if f.overwrites > 0 {
            rep.obs("taint-overwritten");
        }
        if f.revisits > 0 {
            rep.obs("state-revisited(loop-or-join)");
        }
        if s.ret_blk.is_none() {
            rep.obs("source:no-return-site");
        }
        if expected == observed {
            // self-check of the discriminator model (never a verdict): where the merged variant claims to be
            // exact it has to reproduce the implementation's answer
            if let Some(m) = model.merged_acyclic(s, &on_cycle) {
                rep.obs("discriminator-self-check:merged-variant-evaluated");
                if m != observed {
                    rep.obs("discriminator-self-check:merged-variant-differs-from-implementation");
                    rep.note(format!("merged variant claims exactness but differs from the implementation on a source where implementation and reference agree ({})", s.tid));
                }
            }
            continue;
        }
        let describe = |f: &Found| {
            format!(
                "source call {} ({}) in sub {}: reference search: sinks {:?}, {} states, paths ended by checks {}/{} (taken/untaken)\n{}",
                s.tid,
                s.symbol,
                model.subs[s.sub].term.term.name,
                f.sinks,
                f.states,
                f.kills_taken,
                f.kills_untaken,
                show_program(&project.program.term)
            )
        };
        if observed && !expected {
            rep.violation(
                "extra:warning-without-reachable-sink",
                None,
                format!("CWE476 warns ({:?}) but no sink state is reachable. {}", got[&s.tid].tids, describe(f)),
                case(),
                size,
            );
            continue;
        }
        // missed: classify
        // (1) known finding: the only sinks are extern/indirect calls without return site
        let relaxed = model.search(s, &Opts { extra_kill: None, noret_call_sinks: false });
        if !relaxed.flagged() {
            rep.obs("missed:explained-by-call-without-return-site");
            rep.violation(
                "missed:only-calls-without-return-site".to_string(),
                Some(KNOWN_NORET_CALL),
                format!("no CWE476 warning; every sink the reference search reaches is an extern or indirect call without return site that receives the value as a parameter. {}", describe(f)),
                case(),
                size,
            );
            continue;
        }
        // (2) known finding: taint sets are merged at joins
        let lower = model.search(s, &Opts { extra_kill: Some(&f.m_end), noret_call_sinks: false });
        let merged = model.merged_acyclic(s, &on_cycle);
        let known = match merged {
            Some(m) => !m && !lower.flagged(),
            None => !lower.flagged(),
        };
        if let Some(m) = merged {
            if lower.flagged() && !m {
                rep.note("harness self-check failed: lower bound flags a source that the merged variant does not");
            }
        }
        rep.obs(if known { "missed:explained-by-join-merge" } else { "missed:unexplained" });
        rep.violation(
            if known { "missed:join-merged".to_string() } else { format!("missed:{}", relaxed.sinks[0].1) },
            if known { Some(KNOWN_JOIN_MERGE) } else { None },
            format!(
                "no CWE476 warning although a sink state is reachable path-wise (merged variant: {:?}, lower bound flags: {}). union of tainted variables per block end: {:?}. {}",
                merged,
                lower.flagged(),
                f.m_end.iter().map(|m| model.names(*m)).collect::<Vec<_>>(),
                describe(f)
            ),
            case(),
            size,
        );
    }
    if interesting {
        rep.nontrivial(fp_of(&project.program));
    }
    let nblocks: usize = project.program.term.subs.values().map(|s| s.term.blocks.len()).sum();
    rep.obs(&format!("blocks:{}", (nblocks / 4) * 4));
    rep.obs(&format!("sources:{}", sources.len()));
    if want_sample {
        rep.sample(json!({
            "program": show_program(&project.program.term),
            "sources": sources.iter().enumerate().map(|(i, s)| json!({"call": s.tid, "symbol": s.symbol, "expected_flagged": p[i].flagged(), "reference_sinks": p[i].sinks.iter().map(|(t, k)| format!("{t} ({k})")).collect::<Vec<_>>(), "observed_warning": got.get(&s.tid).map(|w| w.tids.clone())})).collect::<Vec<_>>(),
        }));
    }
    true
}


// ---------------------------------------------------------------------------------------------
// Witness minimisation

fn referenced_tids(p: &Project) -> BTreeSet<Tid> {
    let mut out = BTreeSet::new();
    for sub in p.program.term.subs.values() {
        for b in &sub.term.blocks {
            out.extend(b.term.indirect_jmp_targets.iter().cloned());
            for j in &b.term.jmps {
                match &j.term {
                    Jmp::Branch(t) | Jmp::CBranch { target: t, .. } => {
                        out.insert(t.clone());
                    }
                    Jmp::Call { target, return_ } => {
                        out.insert(target.clone());
                        out.extend(return_.iter().cloned());
                    }
                    Jmp::CallInd { return_, .. } | Jmp::CallOther { return_, .. } => out.extend(return_.iter().cloned()),
                    _ => (),
                }
            }
        }
    }
    out
}

/// One-step reductions of a project, biggest first.
fn reductions(p: &Project) -> Vec<Project> {
    let mut out = Vec::new();
    let refs = referenced_tids(p);
    for t in p.program.term.subs.keys() {
        if !refs.contains(t) && p.program.term.subs.len() > 1 {
            let mut q = p.clone();
            q.program.term.subs.remove(t);
            q.program.term.entry_points.remove(t);
            out.push(q);
        }
    }
    for t in p.program.term.extern_symbols.keys() {
        if !refs.contains(t) {
            let mut q = p.clone();
            q.program.term.extern_symbols.remove(t);
            out.push(q);
        }
    }
    for (t, sub) in p.program.term.subs.iter() {
        for (i, b) in sub.term.blocks.iter().enumerate() {
            if i > 0 && !refs.contains(&b.tid) {
                let mut q = p.clone();
                q.program.term.subs.get_mut(t).unwrap().term.blocks.remove(i);
                out.push(q);
            }
        }
    }
    for (t, sub) in p.program.term.subs.iter() {
        for (i, b) in sub.term.blocks.iter().enumerate() {
            let mut alts: Vec<Vec<Term<Jmp>>> = Vec::new();
            if !b.term.jmps.is_empty() {
                alts.push(Vec::new());
            }
            if b.term.jmps.len() == 2 {
                alts.push(vec![b.term.jmps[1].clone()]);
                if let Jmp::CBranch { target, .. } = &b.term.jmps[0].term {
                    alts.push(vec![Term { tid: b.term.jmps[0].tid.clone(), term: Jmp::Branch(target.clone()) }]);
                }
            }
            if b.term.jmps.len() == 1 {
                match &b.term.jmps[0].term {
                    Jmp::Call { return_: Some(r), .. } | Jmp::CallInd { return_: Some(r), .. } => {
                        alts.push(vec![Term { tid: b.term.jmps[0].tid.clone(), term: Jmp::Branch(r.clone()) }]);
                    }
                    _ => (),
                }
            }
            for a in alts {
                let mut q = p.clone();
                let blk = &mut q.program.term.subs.get_mut(t).unwrap().term.blocks[i];
                blk.term.jmps = a;
                blk.term.indirect_jmp_targets.clear();
                out.push(q);
            }
        }
    }
    for (t, sub) in p.program.term.subs.iter() {
        for (i, b) in sub.term.blocks.iter().enumerate() {
            for k in 0..b.term.defs.len() {
                let mut q = p.clone();
                q.program.term.subs.get_mut(t).unwrap().term.blocks[i].term.defs.remove(k);
                out.push(q);
            }
        }
    }
    out
}

/// Greedy minimisation of a violating project: keeps a reduction iff the same violation signature is reported.
pub fn shrink(project: &Project, signature: &str, mut budget: usize) -> Project {
    let mut cur = project.clone();
    loop {
        let mut progress = false;
        for cand in reductions(&cur) {
            if budget == 0 {
                return cur;
            }
            budget -= 1;
            let mut r = Report::new();
            let ok = guard(|| check_normalized(&cand, &mut r, false)).is_ok();
            if ok && r.violations.contains_key(signature) {
                cur = cand;
                progress = true;
                break;
            }
        }
        if !progress {
            return cur;
        }
    }
}

/// `check_normalized` plus minimisation of the first violation of every signature seen by this shard.
pub fn check_and_minimise(project: &Project, rep: &mut Report, want_sample: bool, budget: usize) {
    let mut tmp = Report::new();
    check_normalized(project, &mut tmp, want_sample);
    let viols = std::mem::take(&mut tmp.violations);
    rep.merge(tmp);
    for (sig, v) in viols {
        if !rep.violations.contains_key(&sig) && budget > 0 {
            let small = shrink(project, &sig, budget);
            let mut r2 = Report::new();
            check_normalized(&small, &mut r2, false);
            if let Some(v2) = r2.violations.remove(&sig) {
                rep.violations.insert(sig, v2);
                continue;
            }
        }
        match rep.violations.get(&sig) {
            Some(old) if old.size <= v.size => (),
            _ => {
                rep.violations.insert(sig, v);
            }
        }
    }
}


// ---------------------------------------------------------------------------------------------
// Hand-written minimal witnesses of the known findings (replay case `{"witness": "<key>"}`)

pub fn builtin_witness(key: &str) -> Option<Project> {
    let t = |n: u32, p: &str| tid(&format!("{p}_{n:x}"), &format!("{n:08x}"));
    let b = |i: u32| tid(&format!("blk_main_{i}"), &format!("{:08x}", 0x100000 + 0x1000 * i));
    let malloc = ext_sym("malloc", vec![areg("RDI")], &["RAX"], false, "__stdcall");
    let free = ext_sym("free", vec![areg("RDI")], &[], false, "__stdcall");
    let call_malloc = |n: u32, ret: Tid| jmp(t(n, "call"), Jmp::Call { target: malloc.tid.clone(), return_: Some(ret) });
    let blocks = match key {
        // p = malloc(); if (c) { q = p; p = 0 }  if (q == 0) ... else *p      (q is the value only on the first arm)
        KNOWN_JOIN_MERGE => vec![
            blk(b(0), vec![], vec![call_malloc(1, b(1))]),
            blk(b(1), vec![], vec![jmp(t(2, "jmp"), Jmp::CBranch { target: b(2), condition: e_var(&var("CF", 1)) }), jmp(t(3, "jmp"), Jmp::Branch(b(3)))]),
            blk(b(2), vec![assign(t(4, "def"), reg("RCX"), e_reg("RAX")), assign(t(5, "def"), reg("RAX"), e_const(0, 8))], vec![jmp(t(6, "jmp"), Jmp::Branch(b(4)))]),
            blk(b(3), vec![], vec![jmp(t(7, "jmp"), Jmp::Branch(b(4)))]),
            blk(
                b(4),
                vec![],
                vec![
                    jmp(t(8, "jmp"), Jmp::CBranch { target: b(5), condition: e_bin(BinOpType::IntEqual, e_reg("RCX"), e_const(0, 8)) }),
                    jmp(t(9, "jmp"), Jmp::Branch(b(6))),
                ],
            ),
            blk(b(5), vec![], vec![]),
            blk(b(6), vec![load(t(10, "def"), reg("RDX"), e_reg("RAX"))], vec![]),
        ],
        // p = malloc(); free(p) as a call without return site (tail call / call the disassembler gave no fall-through)
        KNOWN_NORET_CALL => vec![
            blk(b(0), vec![], vec![call_malloc(1, b(1))]),
            blk(b(1), vec![assign(t(2, "def"), reg("RDI"), e_reg("RAX"))], vec![jmp(t(3, "call"), Jmp::Call { target: free.tid.clone(), return_: None })]),
        ],
        // pointer chain starting at the return-address slot of the entry stack frame
        KNOWN_PI_PANIC => vec![
            blk(
                b(0),
                vec![load(t(1, "def"), reg("RAX"), e_reg("RSP")), load(t(2, "def"), reg("RAX"), e_reg_off("RAX", 0x18))],
                vec![jmp(t(3, "jmp"), Jmp::Branch(b(1)))],
            ),
            blk(b(1), vec![load(t(4, "def"), reg("RAX"), e_bin(BinOpType::IntAdd, e_reg("RAX"), e_bin(BinOpType::IntMult, e_reg("RCX"), e_const(8, 8))))], vec![call_malloc(5, b(2))]),
            blk(b(2), vec![], vec![]),
        ],
        _ => return None,
    };
    let main = sub(tid("sub_main", "00100000"), "main", blocks);
    let entry = main.tid.clone();
    let mut project = project_x64(program(vec![main], vec![malloc, free], Some(entry)));
    project.calling_conventions.insert("__fastcall".to_string(), cconv_ms());
    let _ = project.normalize_basic();
    let _ = project.normalize_optimize();
    Some(project)
}

/// Domain guard of the statement: replace the value of every store that would store a tainted value.
fn repair_tainted_stores(project: &mut Project) -> Result<usize, String> {
    let configured = configured_symbols();
    let mut bad: BTreeSet<Tid> = BTreeSet::new();
    {
        let model = Model::new(project, configured)?;
        let strict = Opts { extra_kill: None, noret_call_sinks: true };
        for s in model.sources() {
            let f = model.search(&s, &strict);
            if f.capped {
                return Err("state-cap".into());
            }
            bad.extend(f.tainted_stores);
        }
    }
    let n = bad.len();
    if n > 0 {
        for sub in project.program.term.subs.values_mut() {
            for b in sub.term.blocks.iter_mut() {
                for d in b.term.defs.iter_mut() {
                    if bad.contains(&d.tid) {
                        if let Def::Store { value, .. } = &mut d.term {
                            let w = u64::from(value.bytesize()) as u32;
                            *value = e_const(0, w);
                        }
                    }
                }
            }
        }
    }
    Ok(n)
}

#[derive(Clone, Copy, PartialEq, Eq, Debug)]
pub enum Workload {
    Random,
    Diamond,
    Cconv,
}

pub fn gen_case(rng: &mut Rng, gc: &GenCfg, workload: Workload, rep: &mut Report) -> Option<Project> {
    let mut project = match guard(|| match workload {
        Workload::Diamond => gen_diamond(rng),
        Workload::Cconv => gen_cconv_template(rng),
        Workload::Random => gen_project(rng, gc),
    }) {
        Ok(p) => p,
        Err(m) => {
            rep.inconclusive(&format!("generator-panic:{}", panic_site(&m)));
            return None;
        }
    };
    match repair_tainted_stores(&mut project) {
        Ok(n) => {
            if n > 0 {
                rep.obs("generator:stores-of-tainted-values-rewritten");
            }
        }
        Err(e) => {
            rep.inconclusive(&format!("generator:{e}"));
            return None;
        }
    }
    // normalisation as the CLI performs it
    match guard(|| {
        let _ = project.normalize_basic();
        let _ = project.normalize_optimize();
        project
    }) {
        Ok(p) => Some(p),
        Err(m) => {
            rep.violation(format!("normalize:panic:{}", panic_site(&m)), None, format!("normalisation panicked: {m}"), json!({"note": "raw program not kept"}), 1000);
            None
        }
    }
}

fn run(cfg: &Cfg) -> Report {
    for s in source_pool() {
        assert!(configured_symbols().contains(&s.name), "source symbol {} not in the shipped CWE476 list", s.name);
    }
    let shards = cfg.tier.pick(128usize, 1024usize);
    let per_shard = cfg.tier.pick(150usize, 300usize);
    par_shards(cfg, "c15", shards, |idx, rng, rep| {
        let workload = match idx % 8 {
            5 => Workload::Diamond,
            7 => Workload::Cconv,
            _ => Workload::Random,
        };
        rep.obs(&format!("workload-shards:{workload:?}"));
        let gc = match idx % 8 {
            0 => GenCfg { max_blocks: 4, max_defs: 3, pool: R8, fastcall_of_8: 2 },
            1 => GenCfg { max_blocks: 6, max_defs: 3, pool: R8, fastcall_of_8: 2 },
            2 => GenCfg { max_blocks: 7, max_defs: 2, pool: R_DENSE, fastcall_of_8: 2 },
            3 => GenCfg { max_blocks: 6, max_defs: 3, pool: R_CCONV, fastcall_of_8: 5 },
            4 => GenCfg { max_blocks: 9, max_defs: 3, pool: R8, fastcall_of_8: 2 },
            6 => GenCfg { max_blocks: 9, max_defs: 3, pool: R_DENSE, fastcall_of_8: 2 },
            _ => GenCfg { max_blocks: 5, max_defs: 2, pool: R_CCONV, fastcall_of_8: 4 },
        };
        for i in 0..per_shard {
            let Some(project) = gen_case(rng, &gc, workload, rep) else { continue };
            check_and_minimise(&project, rep, idx < 6 && i == 0, 250);
        }
    })
}

fn replay(_cfg: &Cfg, case: &Value) -> Report {
    let mut rep = Report::new();
    if let Some(key) = case["witness"].as_str() {
        match guard(|| builtin_witness(key)) {
            Ok(Some(project)) => {
                check_normalized(&project, &mut rep, false);
            }
            Ok(None) => rep.note(format!("unknown built-in witness {key}")),
            Err(m) => rep.note(format!("building the witness {key} panicked: {m}")),
        }
        return rep;
    }
    match project_from_json(&case["project"]) {
        Ok(project) => {
            check_normalized(&project, &mut rep, false);
        }
        Err(e) => rep.note(format!("cannot parse replay case: {e}")),
    }
    rep
}
