//! C14 — function signatures never miss a register parameter.
//!
//! Monitor shape: the real `compute_function_signatures` is run on random small multi-function
//! programs; an independent *upward-exposed-use* analysis (written from DESIGN.md "### C14", it never
//! looks at abstract values, identifiers or access patterns) computes for every function a
//! must-report set of parameter registers. Verdict: must-report ⊆ reported register parameters.
//!
//! Decisions about what is demanded (every one keeps the must-report set an under-approximation of
//! "the entry value of R can be read on some path from the function entry before R is overwritten"):
//!  * path = path in the control flow graph of the normalized program (no feasibility reasoning; the
//!    generator never emits constant conditions);
//!  * a use in a block that is unreachable from the function entry is not demanded;
//!  * copies count (`RAX := RDI` reads RDI), sub-register style reads `Subpiece(..RDI..)`/casts count;
//!  * a `Store [a] := Var(R)` counts only if no input of `a` can possibly hold a stack pointer
//!    (flow-insensitive, program-wide name closure from the stack register through assignments, memory
//!    and call returns); everything else that looks like a register spill is not demanded;
//!  * expressions of `Return` jumps and of indirect jumps without known targets are not demanded
//!    (DESIGN: jump expressions are only evaluated on CFG edges) — they are counted as observations;
//!  * kills: assignment/load into R (by name); across every call edge every parameter register that
//!    is not callee-saved or is a return register; a path passes an extern call only if the symbol
//!    returns, an internal call only if a `Return` of the callee is reachable (least fixpoint), an
//!    indirect call always;
//!  * uses at a call (declared extern parameters, standard parameters and target of an indirect call,
//!    must-parameters of an internal callee) do not need a return site and do not need the callee to
//!    return: the entry value *is* read. Two structural situations are open known findings and give the use a
//!    qualified class: the call jump has no return site (`...:no-return-site`, no CFG edge leaves the call) and
//!    the read is inherited from an internal callee only on callee paths that never reach a `Return`
//!    (`callee-param:only-on-nonreturning-callee-path`); a use inherited from a callee all of whose uses are
//!    qualified inherits their causes (`callee-param:via-callee:<causes>`). Parameters of `no_return` symbols
//!    and parameters declared as sub-register expressions are ordinary uses (both were fixed in /repo).
//!    A miss all of whose exposed uses are qualified gets the signature `miss-qualified:<root causes>` and the
//!    known-finding key of its cause (or the combination key); a miss with at least one ordinary exposed use
//!    gets `miss:<class>` and never a key;
//!  * only the integer parameter registers of the (single) calling convention are judged; variables
//!    with a register name but another size and registers outside `register_set` are never generated;
//!  * the fixpoint's step limit (100 visits per node) is not reachable with <= 8 blocks per function;
//!    no result within 60 s is reported like a panic (`hang:...`).

use crate::core::*;
use crate::irb::*;
use crate::prng::Rng;
use cwe_checker_lib::abstract_domain::AbstractLocation;
use cwe_checker_lib::analysis::function_signature::compute_function_signatures;
use cwe_checker_lib::analysis::graph::get_program_cfg;
use cwe_checker_lib::intermediate_representation::*;
use serde_json::{json, Value};
use std::collections::{BTreeMap, BTreeSet};

pub fn info() -> CheckInfo {
    CheckInfo {
        id: "C14",
        rule: "random programs of 1-4 functions with 1-8 blocks each over the x86-64 System-V registers (reads of parameter registers in assigned expressions incl. plain copies, sub-register pieces and casts, in load/store addresses, stored values, branch conditions, indirect jump and call targets, as declared parameters of generically named extern symbols, as standard parameters of indirect calls and through internal callees incl. recursion; overwrites by assignment/load/call before or after the read on some or all paths; diamonds, loops, dead ends, non-returning callees, calls without return site) are normalised (normalize_basic, a third of them also normalize_optimize), the CFG is built and compute_function_signatures is run; an independent upward-exposed-use analysis over the same normalised program gives per function the set of parameter registers that must be reported; verdict must-report subset-of reported. one evaluation = one (function, parameter register) decision. non-trivial = function with >= 2 reachable blocks whose must-report set is neither empty nor all parameter registers, or which has a register that is read only after being overwritten on every path; distinct = hash of (program, function, normalisation mode)",
        assumptions: &[
            "a path is a path of the control flow graph of the normalised program (no path feasibility); conditions always depend on a register or flag",
            "one calling convention (System V as __stdcall, in 1/8 of the programs with one or two parameter registers additionally declared callee-saved); variables named like a register always have the register's size; no CALLOTHER, no stack arguments of extern symbols, no float registers",
            "extern symbols have generic names (no hand-written stub of the analysis applies)",
            "a bare `Store [a] := R` is demanded only when `a` provably cannot be a stack address; Return expressions and indirect jumps without CFG edges are not demanded (DESIGN.md C14)",
            "two template workloads with a must-set known by construction run next to the random programs: a function annotated with its own calling convention whose extra parameter register is read in the entry block, and a function that stores a parameter register through a pointer that is a stack address on one path and a parameter/loaded/global pointer on the other (the stored register is demanded)",
            "a panic of normalize_optimize is not judged here (inconclusive); a panic of the CFG builder or of compute_function_signatures, or no result within 60 s, is a violation",
            "known-finding keys (c14-call-without-return-site, c14-callee-reads-on-nonreturning-path, c14-combination-of-known-causes) are attached only when every upward-exposed use of the missed register has that structural cause: the call jump has no return site / the read is inherited from an internal callee only along callee paths that never reach a Return",
        ],
        run,
        replay,
    }
}

// ---------------------------------------------------------------------------------------------
// Oracle: upward-exposed uses

fn collect_inputs<'e>(e: &'e Expression, out: &mut Vec<&'e Variable>) {
    match e {
        Expression::Var(v) => out.push(v),
        Expression::Const(_) | Expression::Unknown { .. } => (),
        Expression::BinOp { lhs, rhs, .. } => {
            collect_inputs(lhs, out);
            collect_inputs(rhs, out);
        }
        Expression::UnOp { arg, .. } | Expression::Cast { arg, .. } | Expression::Subpiece { arg, .. } => collect_inputs(arg, out),
    }
}

fn inputs(e: &Expression) -> Vec<&Variable> {
    let mut v = Vec::new();
    collect_inputs(e, &mut v);
    v
}

#[derive(Clone, Debug, PartialEq, Eq)]
pub struct UseSite {
    pub reg: usize,
    pub class: String,
    pub blk: usize,
    /// a `Return` of the function is reachable from the use
    pub on_returning_path: bool,
    /// the use is of a kind whose flag reaches the caller in a summary-at-return scheme
    pub propagates: bool,
}

#[derive(Clone, Debug, Default, PartialEq, Eq)]
pub struct SubFacts {
    pub must: u32,
    /// registers with a propagating use on a returning path (any class)
    pub prop: u32,
    /// the same, counting only uses of unqualified classes
    pub pprop: u32,
    /// registers with an exposed use of an unqualified class (on any path)
    pub pmust: u32,
    /// per register: root causes (bits of ROOTS) named by its qualified exposed uses
    pub qroots: [u8; 8],
    /// registers whose entry value may reach *some* point of a reachable block
    pub uses: Vec<UseSite>,
    pub reachable_blocks: usize,
    /// registers that are read somewhere in a reachable block but never with their entry value
    pub read_only_after_kill: u32,
    /// exposed uses of classes that are deliberately not demanded: (reg, class)
    pub excluded: Vec<(usize, String)>,
}

/// Per-function summaries used at internal call sites.
pub struct Summaries {
    pub must: Vec<u32>,
    pub prop: Vec<u32>,
    pub pprop: Vec<u32>,
    pub pmust: Vec<u32>,
    pub qroots: Vec<[u8; 8]>,
}

pub struct Oracle<'a> {
    project: &'a Project,
    pub params: Vec<Variable>,
    all_mask: u32,
    callee_saved_mask: u32,
    maybe_stack: BTreeSet<String>,
    subs: Vec<&'a Term<Sub>>,
    sub_index: BTreeMap<Tid, usize>,
    blk_index: Vec<BTreeMap<Tid, usize>>,
}

impl<'a> Oracle<'a> {
    pub fn new(project: &'a Project) -> Result<Oracle<'a>, String> {
        let cconv = project.get_standard_calling_convention().ok_or("no standard calling convention")?;
        let params: Vec<Variable> = cconv.integer_parameter_register.clone();
        if !cconv.float_parameter_register.is_empty() {
            return Err("float parameter registers are outside the oracle's domain".into());
        }
        let subs: Vec<&Term<Sub>> = project.program.term.subs.values().collect();
        for s in &subs {
            let c = project.get_specific_calling_convention(&s.term.calling_convention).ok_or("no calling convention for sub")?;
            if c.integer_parameter_register != params || c.callee_saved_register != cconv.callee_saved_register {
                return Err("more than one calling convention in use".into());
            }
        }
        for e in project.program.term.extern_symbols.values() {
            let c = project.get_calling_convention(e);
            if c.callee_saved_register != cconv.callee_saved_register {
                return Err("more than one calling convention in use".into());
            }
        }
        let all_mask = (1u32 << params.len()) - 1;
        let mut callee_saved_mask = 0;
        for (i, p) in params.iter().enumerate() {
            // a register survives a call only if it is callee-saved and not a return register
            if cconv.callee_saved_register.iter().any(|c| c.name == p.name) && !cconv.integer_return_register.iter().any(|c| c.name == p.name) {
                callee_saved_mask |= 1 << i;
            }
        }
        let sub_index = subs.iter().enumerate().map(|(i, s)| (s.tid.clone(), i)).collect();
        let blk_index = subs.iter().map(|s| s.term.blocks.iter().enumerate().map(|(i, b)| (b.tid.clone(), i)).collect()).collect();
        let mut o = Oracle { project, params, all_mask, callee_saved_mask, maybe_stack: BTreeSet::new(), subs, sub_index, blk_index };
        o.compute_maybe_stack();
        Ok(o)
    }

    fn pidx(&self, v: &Variable) -> Option<usize> {
        self.params.iter().position(|p| p.name == v.name)
    }

    fn emask(&self, e: &Expression) -> u32 {
        inputs(e).iter().filter_map(|v| self.pidx(v)).fold(0, |m, i| m | (1 << i))
    }

    /// Names of all variables that can possibly hold a value derived from the stack pointer
    /// (flow-insensitive, whole program, through memory and therefore also through calls).
    fn compute_maybe_stack(&mut self) {
        let mut ms: BTreeSet<String> = BTreeSet::new();
        ms.insert(self.project.stack_pointer_register.name.clone());
        let mut mem_tainted = false;
        loop {
            let before = (ms.len(), mem_tainted);
            for s in &self.subs {
                for b in &s.term.blocks {
                    for d in &b.term.defs {
                        match &d.term {
                            Def::Assign { var, value } => {
                                if inputs(value).iter().any(|v| ms.contains(&v.name)) {
                                    ms.insert(var.name.clone());
                                }
                            }
                            Def::Store { value, .. } => {
                                if inputs(value).iter().any(|v| ms.contains(&v.name)) {
                                    mem_tainted = true;
                                }
                            }
                            Def::Load { var, .. } => {
                                if mem_tainted {
                                    ms.insert(var.name.clone());
                                }
                            }
                        }
                    }
                }
            }
            if before == (ms.len(), mem_tainted) {
                break;
            }
        }
        self.maybe_stack = ms;
    }

    fn extern_of(&self, t: &Tid) -> Option<&'a ExternSymbol> {
        self.project.program.term.extern_symbols.get(t)
    }

    /// Successor blocks of block `b` of sub `s`: (index, edge passes a call).
    fn successors(&self, s: usize, b: usize, can_return: &[bool]) -> Vec<(usize, bool)> {
        let blk = &self.subs[s].term.blocks[b];
        let idx = &self.blk_index[s];
        let mut out = Vec::new();
        for j in &blk.term.jmps {
            match &j.term {
                Jmp::Branch(t) | Jmp::CBranch { target: t, .. } => {
                    if let Some(i) = idx.get(t) {
                        out.push((*i, false));
                    }
                }
                Jmp::BranchInd(_) => {
                    for t in &blk.term.indirect_jmp_targets {
                        if let Some(i) = idx.get(t) {
                            out.push((*i, false));
                        }
                    }
                }
                Jmp::Call { target, return_: Some(r) } => {
                    let passes = if let Some(ext) = self.extern_of(target) {
                        !ext.no_return
                    } else if let Some(c) = self.sub_index.get(target) {
                        can_return[*c]
                    } else {
                        false
                    };
                    if passes {
                        if let Some(i) = idx.get(r) {
                            out.push((*i, true));
                        }
                    }
                }
                Jmp::CallInd { return_: Some(r), .. } => {
                    if let Some(i) = idx.get(r) {
                        out.push((*i, true));
                    }
                }
                _ => (),
            }
        }
        out
    }

    fn reachable(&self, s: usize, can_return: &[bool]) -> Vec<bool> {
        let n = self.subs[s].term.blocks.len();
        let mut seen = vec![false; n];
        if n == 0 {
            return seen;
        }
        let mut work = vec![0usize];
        seen[0] = true;
        while let Some(b) = work.pop() {
            for (t, _) in self.successors(s, b, can_return) {
                if !seen[t] {
                    seen[t] = true;
                    work.push(t);
                }
            }
        }
        seen
    }

    fn has_return(blk: &Term<Blk>) -> bool {
        blk.term.jmps.iter().any(|j| matches!(j.term, Jmp::Return(_)))
    }

    fn compute_can_return(&self) -> Vec<bool> {
        let mut can = vec![false; self.subs.len()];
        loop {
            let mut changed = false;
            for s in 0..self.subs.len() {
                if can[s] {
                    continue;
                }
                let reach = self.reachable(s, &can);
                if self.subs[s].term.blocks.iter().enumerate().any(|(i, b)| reach[i] && Self::has_return(b)) {
                    can[s] = true;
                    changed = true;
                }
            }
            if !changed {
                return can;
            }
        }
    }

    /// blocks from whose end a `Return` of the sub is reachable
    fn reaches_return(&self, s: usize, can_return: &[bool]) -> Vec<bool> {
        let blocks = &self.subs[s].term.blocks;
        let n = blocks.len();
        let mut rr: Vec<bool> = blocks.iter().map(Self::has_return).collect();
        loop {
            let mut changed = false;
            for b in 0..n {
                if !rr[b] && self.successors(s, b, can_return).iter().any(|(t, _)| rr[*t]) {
                    rr[b] = true;
                    changed = true;
                }
            }
            if !changed {
                return rr;
            }
        }
    }

    /// Walk one block. `alive` = parameter registers that may still hold their entry value.
    /// Calls `on_use(mask_of_registers_read, class, propagates)` for every read, returns alive at block end
    /// (before the kill of a call edge).
    fn walk_block(&self, s: usize, b: usize, mut alive: u32, sums: &Summaries, on_use: &mut dyn FnMut(u32, u32, &str, bool, bool)) -> u32 {
        // on_use(read_mask, alive, class, propagates, demanded)
        let blk = &self.subs[s].term.blocks[b];
        let idx = &self.blk_index[s];
        for d in &blk.term.defs {
            match &d.term {
                Def::Assign { var, value } => {
                    let class = if matches!(value, Expression::Var(_)) { "assign-copy" } else { "assign-expr" };
                    on_use(self.emask(value), alive, class, true, true);
                    if let Some(i) = self.pidx(var) {
                        alive &= !(1 << i);
                    }
                }
                Def::Load { var, address } => {
                    on_use(self.emask(address), alive, "load-addr", true, true);
                    if let Some(i) = self.pidx(var) {
                        alive &= !(1 << i);
                    }
                }
                Def::Store { address, value } => {
                    on_use(self.emask(address), alive, "store-addr", true, true);
                    if matches!(value, Expression::Var(_)) {
                        let may_be_stack = inputs(address).iter().any(|v| self.maybe_stack.contains(&v.name));
                        if may_be_stack {
                            on_use(self.emask(value), alive, "store-val-bare:possible-stack-spill", true, false);
                        } else {
                            on_use(self.emask(value), alive, "store-val-bare", true, true);
                        }
                    } else {
                        on_use(self.emask(value), alive, "store-val-expr", true, true);
                    }
                }
            }
        }
        let has_edge = |t: &Tid| idx.contains_key(t);
        for j in &blk.term.jmps {
            match &j.term {
                Jmp::Branch(_) => (),
                Jmp::CBranch { target, condition } => {
                    // the condition is evaluated on the edge of the conditional jump and on the edges of the jump following it
                    let follow_edge = blk.term.jmps.iter().any(|o| match &o.term {
                        Jmp::Branch(t) => has_edge(t),
                        _ => false,
                    });
                    let demanded = has_edge(target) || follow_edge;
                    on_use(self.emask(condition), alive, if demanded { "cbranch-cond" } else { "cbranch-cond:no-cfg-edge" }, true, demanded);
                }
                Jmp::BranchInd(e) => {
                    let demanded = blk.term.indirect_jmp_targets.iter().any(has_edge);
                    on_use(self.emask(e), alive, if demanded { "branchind-target" } else { "branchind-target:no-cfg-edge" }, true, demanded);
                }
                Jmp::Return(e) => on_use(self.emask(e), alive, "return-expr", true, false),
                Jmp::Call { target, return_ } => {
                    let site = if return_.is_some() { "" } else { ":no-return-site" };
                    if let Some(ext) = self.extern_of(target) {
                        for p in &ext.parameters {
                            if let Arg::Register { expr, .. } = p {
                                // Declared parameters are ordinary uses, whatever the form of the argument expression
                                // (sub-register pieces included) and whether or not the symbol returns. Only the
                                // structural cause "the call has no return site" qualifies the use.
                                let class = format!("extern-param{site}");
                                on_use(self.emask(expr), alive, &class, return_.is_some(), true);
                            }
                        }
                    } else if let Some(c) = self.sub_index.get(target) {
                        let m = sums.must[*c];
                        if m != 0 {
                            let p = sums.pprop[*c];
                            let pm = sums.pmust[*c];
                            if return_.is_none() {
                                on_use(m, alive, "callee-param:no-return-site", false, true);
                            } else {
                                if m & p != 0 {
                                    on_use(m & p, alive, "callee-param", true, true);
                                }
                                if m & !p & pm != 0 {
                                    // the callee has an ordinary read of the register, but on no path that reaches a return
                                    on_use(m & !p & pm, alive, "callee-param:only-on-nonreturning-callee-path", false, true);
                                }
                                for r in 0..self.params.len() {
                                    let bit = 1u32 << r;
                                    if m & !p & !pm & bit != 0 {
                                        // every read in the callee is itself of a qualified class: inherit its root causes
                                        let class = format!("callee-param:via-callee:{}", root_names(sums.qroots[*c][r]).join("+"));
                                        on_use(bit, alive, &class, sums.prop[*c] & bit != 0, true);
                                    }
                                }
                            }
                        }
                    }
                }
                Jmp::CallInd { target, return_ } => {
                    let site = if return_.is_some() { "" } else { ":no-return-site" };
                    on_use(self.emask(target), alive, &format!("callind-target{site}"), return_.is_some(), true);
                    on_use(self.all_mask, alive, &format!("callind-param{site}"), return_.is_some(), true);
                }
                Jmp::CallOther { .. } => (),
            }
        }
        alive
    }

    fn analyze_sub(&self, s: usize, sums: &Summaries, can_return: &[bool]) -> SubFacts {
        let n = self.subs[s].term.blocks.len();
        let mut facts = SubFacts::default();
        if n == 0 {
            return facts;
        }
        let mut alive_in = vec![0u32; n];
        let mut reach = vec![false; n];
        alive_in[0] = self.all_mask;
        reach[0] = true;
        loop {
            let mut changed = false;
            for b in 0..n {
                if !reach[b] {
                    continue;
                }
                let out = self.walk_block(s, b, alive_in[b], sums, &mut |_, _, _, _, _| ());
                for (t, via_call) in self.successors(s, b, can_return) {
                    let v = if via_call { out & self.callee_saved_mask } else { out };
                    if !reach[t] || alive_in[t] | v != alive_in[t] {
                        reach[t] = true;
                        alive_in[t] |= v;
                        changed = true;
                    }
                }
            }
            if !changed {
                break;
            }
        }
        let rr = self.reaches_return(s, can_return);
        let mut read_any = 0u32;
        for b in 0..n {
            if !reach[b] {
                continue;
            }
            facts.reachable_blocks += 1;
            let mut uses: Vec<UseSite> = Vec::new();
            let mut excluded: Vec<(usize, String)> = Vec::new();
            self.walk_block(s, b, alive_in[b], sums, &mut |mask, alive, class, propagates, demanded| {
                read_any |= mask;
                let exposed = mask & alive;
                for r in 0..self.params.len() {
                    if exposed & (1 << r) != 0 {
                        if demanded {
                            uses.push(UseSite { reg: r, class: class.to_string(), blk: b, on_returning_path: rr[b], propagates });
                        } else {
                            excluded.push((r, class.to_string()));
                        }
                    }
                }
            });
            facts.uses.extend(uses);
            facts.excluded.extend(excluded);
        }
        for u in &facts.uses {
            facts.must |= 1 << u.reg;
            if !is_qualified(&u.class) {
                facts.pmust |= 1 << u.reg;
            } else {
                facts.qroots[u.reg] |= roots_of(&u.class);
            }
            if u.propagates && u.on_returning_path {
                facts.prop |= 1 << u.reg;
                if !is_qualified(&u.class) {
                    facts.pprop |= 1 << u.reg;
                }
            }
        }
        facts.read_only_after_kill = read_any & !facts.must & !facts.excluded.iter().fold(0, |m, (r, _)| m | (1 << r));
        facts
    }

    /// Least fixpoint over the call graph.
    pub fn solve(&self) -> Vec<SubFacts> {
        let can_return = self.compute_can_return();
        let n = self.subs.len();
        let mut sums = Summaries { must: vec![0u32; n], prop: vec![0u32; n], pprop: vec![0u32; n], pmust: vec![0u32; n], qroots: vec![[0u8; 8]; n] };
        let mut facts: Vec<SubFacts> = vec![SubFacts::default(); n];
        loop {
            let mut changed = false;
            for s in 0..n {
                let f = self.analyze_sub(s, &sums, &can_return);
                // all summaries only grow (must/prop/pprop/pmust are monotone; qroots is accumulated, it only names causes)
                let mut q = sums.qroots[s];
                for r in 0..8 {
                    q[r] |= f.qroots[r];
                }
                if f.must | sums.must[s] != sums.must[s] || f.prop | sums.prop[s] != sums.prop[s] || f.pprop | sums.pprop[s] != sums.pprop[s] || f.pmust | sums.pmust[s] != sums.pmust[s] || q != sums.qroots[s] {
                    sums.must[s] |= f.must;
                    sums.prop[s] |= f.prop;
                    sums.pprop[s] |= f.pprop;
                    sums.pmust[s] |= f.pmust;
                    sums.qroots[s] = q;
                    changed = true;
                }
                facts[s] = f;
            }
            if !changed {
                return facts;
            }
        }
    }
}

// ---------------------------------------------------------------------------------------------
// Running the code under test and judging

#[derive(Clone, Debug)]
pub struct Miss {
    pub sub: Tid,
    pub reg: String,
    pub signature: String,
    pub known_key: Option<&'static str>,
    pub uses: Vec<String>,
}

pub struct Evaluation {
    pub project: Project,
    pub sub_tids: Vec<Tid>,
    pub facts: Vec<SubFacts>,
    pub params: Vec<String>,
    pub reported: Vec<BTreeSet<String>>,
    pub misses: Vec<Miss>,
}

pub enum EvalError {
    Inconclusive(String),
    Panic(String, String),
    /// no result within `EVAL_TIMEOUT_S` seconds (the worker thread is abandoned)
    Timeout,
}

/// Normal cost of one evaluation is a few milliseconds; the limit only keeps a non-terminating or
/// exploding analysis from hanging the whole run.
pub const EVAL_TIMEOUT_S: u64 = 60;
/// After this many timeouts in one run the remaining programs are skipped (each abandoned thread keeps a core busy).
const MAX_TIMEOUTS: usize = 6;
static TIMEOUTS: std::sync::atomic::AtomicUsize = std::sync::atomic::AtomicUsize::new(0);

fn mask_names(mask: u32, params: &[String]) -> Vec<String> {
    params.iter().enumerate().filter(|(i, _)| mask & (1 << i) != 0).map(|(_, p)| p.clone()).collect()
}

/// Class qualifiers that name a situation in which nothing can flow along a CFG edge of the caller.
fn is_qualified(class: &str) -> bool {
    class.contains(':')
}

/// Root causes a qualified class can name: (qualifier in a direct class, name of the root cause, known-finding key).
const ROOTS: [(&str, &str, &str); 2] = [
    (":no-return-site", "call-without-return-site", KNOWN_NO_RETURN_SITE),
    (":only-on-nonreturning-callee-path", "callee-reads-only-on-nonreturning-path", KNOWN_NONRETURNING_CALLEE_PATH),
];
/// A read at a call jump without return site (no CFG edge leaves the call, the analysis computes call effects on edges).
pub const KNOWN_NO_RETURN_SITE: &str = "c14-call-without-return-site";
/// A read inherited from an internal callee that happens only on callee paths that never reach a `Return`.
pub const KNOWN_NONRETURNING_CALLEE_PATH: &str = "c14-callee-reads-on-nonreturning-path";
pub const KNOWN_COMBINATION: &str = "c14-combination-of-known-causes";

fn roots_of(class: &str) -> u8 {
    let mut m = 0;
    for (i, (qualifier, name, _)) in ROOTS.iter().enumerate() {
        if class.contains(qualifier) || class.contains(name) {
            m |= 1 << i;
        }
    }
    m
}

fn root_names(mask: u8) -> Vec<&'static str> {
    ROOTS.iter().enumerate().filter(|(i, _)| mask & (1 << i) != 0).map(|(_, r)| r.1).collect()
}

/// Signature and (discriminator) known-finding key of a miss whose exposed uses have the given classes.
/// A miss gets a key only if *every* exposed use of the register is of a qualified class, i.e. each of them is
/// a read that happens at a jump from which no state flows along a CFG edge, or an extern parameter declared as
/// a sub-register expression.
fn signature_of(classes: &BTreeSet<String>) -> (String, Option<&'static str>) {
    let plain: Vec<&str> = classes.iter().filter(|c| !is_qualified(c)).map(|s| s.as_str()).collect();
    if !plain.is_empty() {
        // at least one use of an unqualified class was missed: name the most direct one (classes derived from
        // other functions last) and only say that there are others
        const PRIORITY: [&str; 12] = ["assign-copy", "assign-expr", "load-addr", "store-addr", "store-val-bare", "store-val-expr", "cbranch-cond", "branchind-target", "extern-param", "callind-target", "callind-param", "callee-param"];
        let first = PRIORITY.iter().find(|p| plain.contains(*p)).copied().unwrap_or(plain[0]);
        (format!("miss:{first}{}", if plain.len() > 1 { "+others" } else { "" }), None)
    } else {
        let roots = classes.iter().fold(0u8, |m, c| m | roots_of(c));
        let key = match roots.count_ones() {
            0 => None,
            1 => Some(ROOTS[roots.trailing_zeros() as usize].2),
            _ => Some(KNOWN_COMBINATION),
        };
        (format!("miss-qualified:{}", root_names(roots).join("+")), key)
    }
}

type EvalResult = Result<Evaluation, EvalError>;

/// A helper thread owned by one worker thread; it is abandoned (and replaced) when an evaluation times out.
struct EvalHelper {
    jobs: std::sync::mpsc::Sender<(Project, bool)>,
    results: std::sync::mpsc::Receiver<EvalResult>,
}

impl EvalHelper {
    fn start() -> Option<EvalHelper> {
        let (jobs, job_rx) = std::sync::mpsc::channel::<(Project, bool)>();
        let (res_tx, results) = std::sync::mpsc::channel::<EvalResult>();
        std::thread::Builder::new()
            .name("c14-eval".into())
            .spawn(move || {
                while let Ok((project, optimize)) = job_rx.recv() {
                    if res_tx.send(evaluate_inner(&project, optimize)).is_err() {
                        break;
                    }
                }
            })
            .ok()?;
        Some(EvalHelper { jobs, results })
    }
}

thread_local! {
    static EVAL_HELPER: std::cell::RefCell<Option<EvalHelper>> = const { std::cell::RefCell::new(None) };
}

/// `evaluate_inner` on the worker's helper thread with a time limit.
pub fn evaluate(raw: &Project, optimize: bool) -> EvalResult {
    EVAL_HELPER.with(|slot| {
        let mut slot = slot.borrow_mut();
        if slot.is_none() {
            *slot = EvalHelper::start();
        }
        let Some(helper) = slot.as_ref() else {
            return evaluate_inner(raw, optimize);
        };
        if helper.jobs.send((raw.clone(), optimize)).is_err() {
            *slot = None;
            return Err(EvalError::Inconclusive("harness-panic:evaluation-thread-died".into()));
        }
        match helper.results.recv_timeout(std::time::Duration::from_secs(EVAL_TIMEOUT_S)) {
            Ok(r) => r,
            Err(std::sync::mpsc::RecvTimeoutError::Timeout) => {
                *slot = None; // abandon the stuck thread
                Err(EvalError::Timeout)
            }
            Err(std::sync::mpsc::RecvTimeoutError::Disconnected) => {
                *slot = None;
                Err(EvalError::Inconclusive("harness-panic:evaluation-thread-died".into()))
            }
        }
    })
}

fn evaluate_inner(raw: &Project, optimize: bool) -> Result<Evaluation, EvalError> {
    let mut project = raw.clone();
    match guard(|| {
        let _ = project.normalize_basic();
    }) {
        Ok(()) => (),
        Err(p) => return Err(EvalError::Inconclusive(format!("normalize_basic-panic:{}", panic_site(&p)))),
    }
    if optimize {
        match guard(|| {
            let _ = project.normalize_optimize();
        }) {
            Ok(()) => (),
            Err(p) => return Err(EvalError::Inconclusive(format!("normalize_optimize-panic:{}", panic_site(&p)))),
        }
    }
    let sigs = match guard(|| {
        let graph = get_program_cfg(&project.program);
        let (sigs, _logs) = compute_function_signatures(&project, &graph);
        sigs
    }) {
        Ok(s) => s,
        Err(p) => return Err(EvalError::Panic(panic_site(&p), p)),
    };
    let (facts, params, sub_tids) = {
        let oracle = Oracle::new(&project).map_err(EvalError::Inconclusive)?;
        let facts = oracle.solve();
        let params: Vec<String> = oracle.params.iter().map(|p| p.name.clone()).collect();
        let sub_tids: Vec<Tid> = oracle.subs.iter().map(|s| s.tid.clone()).collect();
        (facts, params, sub_tids)
    };
    let mut reported = Vec::new();
    let mut misses = Vec::new();
    for (i, t) in sub_tids.iter().enumerate() {
        let rep: BTreeSet<String> = match sigs.get(t) {
            Some(sig) => sig
                .parameters
                .keys()
                .filter_map(|loc| match loc {
                    AbstractLocation::Register(v) => Some(v.name.clone()),
                    _ => None,
                })
                .collect(),
            None => BTreeSet::new(),
        };
        for (r, name) in params.iter().enumerate() {
            if facts[i].must & (1 << r) != 0 && !rep.contains(name) {
                let classes: BTreeSet<String> = facts[i].uses.iter().filter(|u| u.reg == r).map(|u| u.class.clone()).collect();
                let uses: Vec<String> = facts[i]
                    .uses
                    .iter()
                    .filter(|u| u.reg == r)
                    .map(|u| format!("{} in block #{} [{}]", u.class, u.blk, project.program.term.subs[t].term.blocks[u.blk].tid))
                    .collect();
                let missing_sig = if sigs.contains_key(t) { "" } else { ":no-signature-for-function" };
                let (sig, key) = signature_of(&classes);
                misses.push(Miss { sub: t.clone(), reg: name.clone(), signature: format!("{sig}{missing_sig}"), known_key: if missing_sig.is_empty() { key } else { None }, uses });
            }
        }
        reported.push(rep);
    }
    Ok(Evaluation { project, sub_tids, facts, params, reported, misses })
}

fn program_size(p: &Project) -> u64 {
    p.program.term.subs.values().map(|s| 3 + s.term.blocks.iter().map(|b| 2 + b.term.defs.len() as u64 + b.term.jmps.len() as u64).sum::<u64>()).sum()
}

fn case_json(raw: &Project, optimize: bool, miss_signature: &str) -> Value {
    json!({"project": project_to_json(raw), "optimize": optimize, "miss_signature": miss_signature})
}

fn still_misses(raw: &Project, optimize: bool, signature: &str) -> bool {
    match evaluate(raw, optimize) {
        Ok(ev) => ev.misses.iter().any(|m| m.signature == signature),
        Err(_) => false,
    }
}

/// Greedy shrinking of a failing program: drop whole functions that nobody needs, drop defs, simplify
/// two-way branches, drop jumps — as long as a miss with the same signature remains.
pub fn shrink(raw: &Project, optimize: bool, signature: &str) -> Project {
    let mut cur = raw.clone();
    let mut budget = 400;
    loop {
        let mut progress = false;
        // remove subs (calls to them are retargeted to the artificial sink by normalize_basic)
        let tids: Vec<Tid> = cur.program.term.subs.keys().cloned().collect();
        for t in tids {
            if cur.program.term.subs.len() <= 1 || budget == 0 {
                break;
            }
            let mut cand = cur.clone();
            cand.program.term.subs.remove(&t);
            cand.program.term.entry_points.remove(&t);
            budget -= 1;
            if still_misses(&cand, optimize, signature) {
                cur = cand;
                progress = true;
            }
        }
        let tids: Vec<Tid> = cur.program.term.subs.keys().cloned().collect();
        for t in &tids {
            let nb = cur.program.term.subs[t].term.blocks.len();
            for b in (0..nb).rev() {
                // drop a non-entry block entirely
                if b > 0 && budget > 0 {
                    let mut cand = cur.clone();
                    cand.program.term.subs.get_mut(t).unwrap().term.blocks.remove(b);
                    budget -= 1;
                    if still_misses(&cand, optimize, signature) {
                        cur = cand;
                        progress = true;
                        continue;
                    }
                }
                let nd = cur.program.term.subs[t].term.blocks[b].term.defs.len();
                for d in (0..nd).rev() {
                    if budget == 0 {
                        break;
                    }
                    let mut cand = cur.clone();
                    cand.program.term.subs.get_mut(t).unwrap().term.blocks[b].term.defs.remove(d);
                    budget -= 1;
                    if still_misses(&cand, optimize, signature) {
                        cur = cand;
                        progress = true;
                    }
                }
                let nj = cur.program.term.subs[t].term.blocks[b].term.jmps.len();
                for j in (0..nj).rev() {
                    if budget == 0 {
                        break;
                    }
                    let mut cand = cur.clone();
                    {
                        let blk = &mut cand.program.term.subs.get_mut(t).unwrap().term.blocks[b];
                        blk.term.jmps.remove(j);
                        if !blk.term.jmps.iter().any(|x| matches!(x.term, Jmp::BranchInd(_))) {
                            blk.term.indirect_jmp_targets.clear();
                        }
                    }
                    budget -= 1;
                    if still_misses(&cand, optimize, signature) {
                        cur = cand;
                        progress = true;
                    }
                }
            }
        }
        if !progress || budget == 0 {
            return cur;
        }
    }
}

/// Shrink the kept witness of every miss signature (done once per signature after the shards were merged).
fn minimize_violations(rep: &mut Report) {
    let sigs: Vec<String> = rep.violations.keys().cloned().collect();
    for sig in sigs {
        let v = rep.violations[&sig].clone();
        let miss_sig = v.case["miss_signature"].as_str().unwrap_or("").to_string();
        if miss_sig.is_empty() {
            continue;
        }
        let optimize = v.case["optimize"].as_bool().unwrap_or(false);
        let raw = match project_from_json(&v.case["project"]) {
            Ok(p) => p,
            Err(_) => continue,
        };
        let small = match guard(|| shrink(&raw, optimize, &miss_sig)) {
            Ok(s) => s,
            Err(_) => continue,
        };
        if let Ok(ev) = evaluate(&small, optimize) {
            if let Some(m) = ev.misses.iter().find(|x| x.signature == miss_sig) {
                let nv = Violation { signature: sig.clone(), known_key: v.known_key.clone(), detail: describe(&ev, m), case: case_json(&small, optimize, &miss_sig), size: program_size(&small) };
                rep.violations.insert(sig, nv);
            }
        }
    }
}

fn show_program_with_externs(p: &Project) -> String {
    let mut out = show_program(&p.program.term);
    for e in p.program.term.extern_symbols.values() {
        let ps: Vec<String> = e
            .parameters
            .iter()
            .map(|a| match a {
                Arg::Register { expr, .. } => format!("{expr}"),
                Arg::Stack { address, size, .. } => format!("stack[{address}]:{size}"),
            })
            .collect();
        out += &format!("  declared parameters of {}: ({})\n", e.name, ps.join(", "));
    }
    let cc = p.get_standard_calling_convention().unwrap();
    out += &format!("  calling convention: parameters {:?}, callee-saved {:?}\n", cc.integer_parameter_register.iter().map(|v| v.name.as_str()).collect::<Vec<_>>(), cc.callee_saved_register.iter().map(|v| v.name.as_str()).collect::<Vec<_>>());
    out
}

fn describe(ev: &Evaluation, m: &Miss) -> String {
    let i = ev.sub_tids.iter().position(|t| *t == m.sub).unwrap();
    format!(
        "function {} reads the entry value of parameter register {} but it is not among the reported register parameters.\n  expected (must-report, from the upward-exposed-use oracle): {:?}\n  observed FunctionSignature.parameters (registers): {:?}\n  upward-exposed uses of {}: {}\n--- normalised program given to the analysis:\n{}",
        m.sub,
        m.reg,
        mask_names(ev.facts[i].must, &ev.params),
        ev.reported[i],
        m.reg,
        m.uses.join("; "),
        show_program_with_externs(&ev.project)
    )
}

/// Check one generated program (before normalisation) in one normalisation mode.
pub fn check_case(raw: &Project, optimize: bool, rep: &mut Report, want_sample: bool) {
    let mode = if optimize { "optimize" } else { "basic" };
    let ev = match evaluate(raw, optimize) {
        Ok(ev) => ev,
        Err(EvalError::Inconclusive(why)) => {
            rep.inconclusive(&why);
            return;
        }
        Err(EvalError::Timeout) => {
            // Like a panic: the analysis gives no signature at all for an input of the property's domain.
            TIMEOUTS.fetch_add(1, std::sync::atomic::Ordering::SeqCst);
            rep.eval();
            rep.violation(
                format!("hang:no-result-within-{EVAL_TIMEOUT_S}s"),
                None,
                format!(
                    "normalisation + CFG construction + compute_function_signatures ({mode}) did not finish within {EVAL_TIMEOUT_S} s (normal cost: milliseconds)\n{}",
                    show_program_with_externs(raw)
                ),
                case_json(raw, optimize, ""),
                program_size(raw),
            );
            return;
        }
        Err(EvalError::Panic(site, msg)) => {
            rep.eval();
            rep.violation(
                format!("panic:{site}"),
                None,
                format!("CFG construction / compute_function_signatures panicked ({mode}): {msg}\n{}", show_program_with_externs(raw)),
                case_json(raw, optimize, ""),
                program_size(raw),
            );
            return;
        }
    };
    rep.obs(&format!("mode:{mode}"));
    let prog_fp = fp_of(&ev.project.program);
    let all = (1u32 << ev.params.len()) - 1;
    for (i, t) in ev.sub_tids.iter().enumerate() {
        if t.is_artificial_sink_sub() {
            continue;
        }
        let f = &ev.facts[i];
        rep.evals(ev.params.len() as u64);
        rep.obs(&format!("must-report-size:{}", f.must.count_ones()));
        rep.obs(&format!("reachable-blocks:{}", f.reachable_blocks));
        let mut seen = BTreeSet::new();
        for u in &f.uses {
            if seen.insert((&u.class, u.reg)) {
                rep.obs(&format!("exposed-use:{}", u.class));
            }
        }
        for (r, c) in &f.excluded {
            if f.must & (1 << r) == 0 {
                let got = ev.reported[i].contains(&ev.params[*r]);
                rep.obs(&format!("not-demanded:{c}:only-use:{}", if got { "reported-anyway" } else { "not-reported" }));
            }
        }
        if f.read_only_after_kill != 0 {
            rep.obs("has-register-read-only-after-overwrite");
        }
        let over = ev.reported[i].iter().filter(|n| ev.params.iter().position(|p| p == *n).map(|r| f.must & (1 << r) == 0).unwrap_or(false)).count();
        if over > 0 {
            rep.obs("reported-more-than-must(allowed)");
        }
        let nontrivial = f.reachable_blocks >= 2 && ((f.must != 0 && f.must != all) || f.read_only_after_kill != 0);
        if nontrivial {
            rep.nontrivial(crate::prng::mix(prog_fp, crate::prng::hash_str(&format!("{t}:{mode}"))));
        }
    }
    if want_sample && rep.wants_sample() {
        rep.sample(json!({
            "mode": mode,
            "program": show_program_with_externs(&ev.project),
            "functions": ev.sub_tids.iter().enumerate().filter(|(_, t)| !t.is_artificial_sink_sub()).map(|(i, t)| json!({
                "function": format!("{t}"),
                "expected_must_report": mask_names(ev.facts[i].must, &ev.params),
                "exposed_uses": ev.facts[i].uses.iter().map(|u| format!("{}:{}@blk#{}", ev.params[u.reg], u.class, u.blk)).collect::<Vec<_>>(),
                "observed_register_parameters": ev.reported[i],
            })).collect::<Vec<_>>(),
        }));
    }
    // one violation per signature of this program
    let mut done: BTreeSet<String> = BTreeSet::new();
    for m in &ev.misses {
        if !done.insert(m.signature.clone()) {
            rep.violation_count += 1;
            continue;
        }
        let (small, detail) = (raw.clone(), describe(&ev, m));
        rep.violation(m.signature.clone(), m.known_key, detail, case_json(&small, optimize, &m.signature), program_size(&small));
    }
}

// ---------------------------------------------------------------------------------------------
// Generator

const SCRATCH: &[&str] = &["RAX", "RBX", "R10", "R11", "R12"];

struct Gen<'a> {
    rng: &'a mut Rng,
    counter: u32,
    /// parameter registers this function mostly talks about
    focus: Vec<&'static str>,
    temps8: Vec<Variable>,
}

impl<'a> Gen<'a> {
    fn fresh(&mut self, prefix: &str) -> Tid {
        self.counter += 1;
        tid(&format!("{prefix}_{}", self.counter), &format!("{:06x}", 0x1000 + self.counter * 4))
    }

    fn preg(&mut self) -> &'static str {
        if !self.focus.is_empty() && self.rng.chance(9, 10) {
            *self.rng.pick(&self.focus)
        } else {
            *self.rng.pick(PARAM_REGS)
        }
    }

    fn scratch(&mut self) -> &'static str {
        *self.rng.pick(SCRATCH)
    }

    fn flagname(&mut self) -> &'static str {
        *self.rng.pick(FLAGS)
    }

    fn small_const(&mut self) -> i64 {
        *self.rng.pick(&[0i64, 1, -1, 4, 8, -8, 16, 24, 0x40, 0x1000])
    }

    /// 8-byte leaf: parameter register (mostly), scratch register, temporary or constant
    fn leaf8(&mut self) -> Expression {
        match self.rng.below(10) {
            0..=5 => e_reg(self.preg()),
            6 | 7 => e_reg(self.scratch()),
            8 if !self.temps8.is_empty() => e_var(&self.rng.pick(&self.temps8).clone()),
            _ => e_const(self.small_const(), 8),
        }
    }

    fn sub4(&mut self) -> Expression {
        let r = self.preg();
        let low = *self.rng.pick(&[0u32, 0, 0, 4]);
        e_subpiece(low, 4, e_reg(r))
    }

    /// 8-byte expression that is not a bare variable
    fn e8(&mut self, depth: u32) -> Expression {
        use BinOpType::*;
        match self.rng.below(12) {
            0..=4 => {
                let op = *self.rng.pick(&[IntAdd, IntAdd, IntSub, IntAnd, IntOr, IntXOr, IntMult]);
                let l = if depth > 0 && self.rng.chance(1, 3) { self.e8(depth - 1) } else { self.leaf8() };
                let r = if self.rng.bool() { e_const(self.small_const(), 8) } else { self.leaf8() };
                if self.rng.chance(1, 5) {
                    e_bin(op, r, l)
                } else {
                    e_bin(op, l, r)
                }
            }
            5 => {
                let a = self.leaf8();
                e_bin(*self.rng.pick(&[IntLeft, IntRight, IntSRight]), a, e_const(*self.rng.pick(&[1i64, 3, 32]), 1))
            }
            6 => e_un(*self.rng.pick(&[UnOpType::IntNegate, UnOpType::Int2Comp]), self.leaf8()),
            7 | 8 => e_cast(*self.rng.pick(&[CastOpType::IntZExt, CastOpType::IntSExt]), 8, self.sub4()),
            9 => {
                let hi = self.sub4();
                let lo = self.sub4();
                e_bin(Piece, hi, lo)
            }
            10 => {
                let r = self.preg();
                e_cast(CastOpType::IntZExt, 8, e_subpiece(0, 1, e_reg(r)))
            }
            _ => {
                let r = self.preg();
                e_bin(IntAdd, e_reg(r), e_const(self.small_const(), 8))
            }
        }
    }

    fn cond(&mut self, depth: u32) -> Expression {
        use BinOpType::*;
        match self.rng.below(10) {
            0..=3 => {
                let op = *self.rng.pick(&[IntEqual, IntNotEqual, IntLess, IntSLess, IntLessEqual, IntSLessEqual]);
                let l = self.leaf8();
                let r = if self.rng.bool() { e_const(self.small_const(), 8) } else { self.leaf8() };
                // never a constant condition
                let l = if inputs(&l).is_empty() && inputs(&r).is_empty() { e_reg(self.preg()) } else { l };
                e_bin(op, l, r)
            }
            4 => {
                let l = self.sub4();
                e_bin(*self.rng.pick(&[IntEqual, IntNotEqual, IntSLess]), l, e_const(self.small_const(), 4))
            }
            5 | 6 => e_var(&var(self.flagname(), 1)),
            7 if depth > 0 => e_un(UnOpType::BoolNegate, self.cond(depth - 1)),
            8 if depth > 0 => {
                let a = self.cond(depth - 1);
                let b = self.cond(depth - 1);
                e_bin(*self.rng.pick(&[BoolAnd, BoolOr, BoolXOr]), a, b)
            }
            _ => {
                let r = self.preg();
                e_bin(IntNotEqual, e_subpiece(0, 1, e_reg(r)), e_const(0, 1))
            }
        }
    }

    fn addr(&mut self) -> Expression {
        let off = *self.rng.pick(&[0i64, 0, 8, -8, 16, -16, 4, 24, 0x100]);
        match self.rng.below(12) {
            0 | 1 => e_reg_off("RSP", off),
            2 => e_reg_off("RBP", off),
            3..=6 => e_reg_off(self.preg(), off),
            7 | 8 => e_reg_off(self.scratch(), off),
            9 => e_const(0x601000 + off.abs(), 8),
            10 => {
                // base + index*scale
                let b = self.preg();
                let i = self.preg();
                e_bin(BinOpType::IntAdd, e_reg(b), e_bin(BinOpType::IntMult, e_reg(i), e_const(8, 8)))
            }
            _ => self.e8(0),
        }
    }

    fn def(&mut self, defs: &mut Vec<Term<Def>>) {
        let t = self.fresh("def");
        match self.rng.below(24) {
            0..=2 => {
                // scratch := expression / copy
                let target = reg(self.scratch());
                let e = if self.rng.chance(1, 3) { e_reg(self.preg()) } else { self.e8(1) };
                defs.push(assign(t, target, e));
            }
            3 | 4 => {
                let e = self.cond(1);
                defs.push(assign(t, var(self.flagname(), 1), e));
            }
            5 => {
                let v = tmp(&format!("$U{}", self.counter), 8);
                let e = if self.rng.chance(1, 4) { e_reg(self.preg()) } else { self.e8(1) };
                defs.push(assign(t, v.clone(), e));
                self.temps8.push(v);
            }
            6..=8 => {
                // overwrite a parameter register with something that does not read it
                let r = self.preg();
                let e = match self.rng.below(4) {
                    0 => e_const(self.small_const(), 8),
                    1 => e_reg(self.scratch()),
                    2 => e_bin(BinOpType::IntAdd, e_reg(self.scratch()), e_const(self.small_const(), 8)),
                    _ => {
                        // copy of another parameter register
                        let o = self.preg();
                        e_reg(o)
                    }
                };
                defs.push(assign(t, reg(r), e));
            }
            9 => {
                // read-modify-write of a parameter register
                let r = self.preg();
                let e = match self.rng.below(3) {
                    0 => e_bin(BinOpType::IntAdd, e_reg(r), e_const(self.small_const(), 8)),
                    1 => e_bin(BinOpType::IntXOr, e_reg(r), e_reg(r)),
                    _ => e_cast(CastOpType::IntZExt, 8, e_subpiece(0, 4, e_reg(r))),
                };
                defs.push(assign(t, reg(r), e));
            }
            10 | 11 => {
                // load into a parameter register
                let a = self.addr();
                let r = self.preg();
                defs.push(load(t, reg(r), a));
            }
            12 | 13 => {
                let a = self.addr();
                if self.rng.chance(1, 4) {
                    let v = tmp(&format!("$U{}", self.counter), 8);
                    defs.push(load(t, v.clone(), a));
                    self.temps8.push(v);
                } else {
                    defs.push(load(t, reg(self.scratch()), a));
                }
            }
            14..=19 => {
                let a = self.addr();
                let v = match self.rng.below(10) {
                    0..=3 => e_reg(self.preg()),
                    4..=6 => self.e8(1),
                    7 => e_const(self.small_const(), 8),
                    8 => e_reg(self.scratch()),
                    _ => self.sub4(),
                };
                defs.push(store(t, a, v));
            }
            20 => {
                // push-like spill
                defs.push(assign(t, reg("RSP"), e_bin(BinOpType::IntSub, e_reg("RSP"), e_const(8, 8))));
                let t2 = self.fresh("def");
                let r = if self.rng.bool() { self.preg() } else { *self.rng.pick(&["RBP", "RBX", "R12"]) };
                defs.push(store(t2, e_reg("RSP"), e_reg(r)));
            }
            21 => {
                if self.rng.chance(1, 3) {
                    defs.push(assign(t, reg("RBP"), e_reg("RSP")));
                } else {
                    let c = *self.rng.pick(&[8i64, 16, 32]);
                    let op = *self.rng.pick(&[BinOpType::IntSub, BinOpType::IntAdd]);
                    defs.push(assign(t, reg("RSP"), e_bin(op, e_reg("RSP"), e_const(c, 8))));
                }
            }
            _ => {
                // scratch := scratch (keeps other registers busy)
                let a = reg(self.scratch());
                let b = reg(self.scratch());
                defs.push(assign(t, a, e_var(&b)));
            }
        }
    }

    fn function(&mut self, name: &str, sub_tids: &[Tid], externs: &[Tid], indirect_call_weight: u64) -> Term<Sub> {
        let n = match self.rng.below(10) {
            0 => 1,
            1 | 2 => 2,
            3 | 4 => 3,
            5 | 6 => 4,
            _ => self.rng.range_usize(5, 8),
        };
        let nf = self.rng.range_usize(1, 4);
        let mut regs: Vec<&'static str> = PARAM_REGS.to_vec();
        self.rng.shuffle(&mut regs);
        self.focus = regs[..nf].to_vec();
        let blk_tids: Vec<Tid> = (0..n).map(|i| tid(&format!("blk_{name}_{i}"), &format!("{name}{i:02}"))).collect();
        let mut blocks = Vec::new();
        for i in 0..n {
            self.temps8.clear();
            let mut defs = Vec::new();
            let nd = match self.rng.below(8) {
                0 => 0,
                1..=3 => 1,
                4 | 5 => 2,
                6 => 3,
                _ => 4,
            };
            for _ in 0..nd {
                self.def(&mut defs);
            }
            let last = i + 1 == n;
            let pick_target = |rng: &mut Rng| -> Tid {
                if i + 1 < n && rng.chance(3, 4) {
                    blk_tids[rng.range_usize(i + 1, n - 1)].clone()
                } else {
                    blk_tids[rng.usize_below(n)].clone()
                }
            };
            let ret_site = |rng: &mut Rng| -> Option<Tid> {
                if rng.chance(1, 9) {
                    None
                } else {
                    Some(pick_target(rng))
                }
            };
            let mut jmps = Vec::new();
            let mut indirect_targets = Vec::new();
            let mut choice = if last && self.rng.chance(4, 5) { 100 } else { self.rng.below(44 + indirect_call_weight) };
            if i == 0 && n > 1 && matches!(choice, 39..=43 | 100) {
                choice = 6; // the entry block of a multi-block function does not end the function
            }
            match choice {
                0..=5 => jmps.push(jmp(self.fresh("jmp"), Jmp::Branch(pick_target(self.rng)))),
                6..=17 => {
                    let c = self.cond(1);
                    let t1 = pick_target(self.rng);
                    let t2 = pick_target(self.rng);
                    jmps.push(jmp(self.fresh("jmp"), Jmp::CBranch { target: t1, condition: c }));
                    jmps.push(jmp(self.fresh("jmp"), Jmp::Branch(t2)));
                }
                18 => {
                    // conditional jump without a second jump
                    let c = self.cond(1);
                    let t1 = pick_target(self.rng);
                    jmps.push(jmp(self.fresh("jmp"), Jmp::CBranch { target: t1, condition: c }));
                }
                19..=21 => {
                    // indirect jump (jump table) with 1-2 known targets, sometimes none
                    let e = if self.rng.chance(1, 3) { e_reg(self.preg()) } else { self.e8(0) };
                    let k = *self.rng.pick(&[0usize, 1, 2, 2]);
                    for _ in 0..k {
                        indirect_targets.push(pick_target(self.rng));
                    }
                    jmps.push(jmp(self.fresh("jmp"), Jmp::BranchInd(e)));
                }
                22..=29 | 36..=38 if !externs.is_empty() => {
                    let target = self.rng.pick(externs).clone();
                    let r = ret_site(self.rng);
                    jmps.push(jmp(self.fresh("call"), Jmp::Call { target, return_: r }));
                }
                30..=35 => {
                    let target = self.rng.pick(sub_tids).clone();
                    let r = ret_site(self.rng);
                    jmps.push(jmp(self.fresh("call"), Jmp::Call { target, return_: r }));
                }
                39..=41 => {
                    let e = if self.rng.chance(1, 4) { e_reg("RAX") } else { e_var(&tmp("$Uret", 8)) };
                    if let Expression::Var(v) = &e {
                        if v.is_temp {
                            defs.push(load(self.fresh("def"), v.clone(), e_reg("RSP")));
                            defs.push(assign(self.fresh("def"), reg("RSP"), e_bin(BinOpType::IntAdd, e_reg("RSP"), e_const(8, 8))));
                        }
                    }
                    jmps.push(jmp(self.fresh("jmp"), Jmp::Return(e)));
                }
                42 => (), // dead end: block without jumps
                43 => {
                    // return through a parameter register (not demanded, observed)
                    let r = self.preg();
                    jmps.push(jmp(self.fresh("jmp"), Jmp::Return(e_reg(r))));
                }
                100 => {
                    let v = tmp("$Uret", 8);
                    defs.push(load(self.fresh("def"), v.clone(), e_reg("RSP")));
                    defs.push(assign(self.fresh("def"), reg("RSP"), e_bin(BinOpType::IntAdd, e_reg("RSP"), e_const(8, 8))));
                    jmps.push(jmp(self.fresh("jmp"), Jmp::Return(e_var(&v))));
                }
                _ => {
                    // indirect call
                    let e = match self.rng.below(3) {
                        0 => e_reg(self.preg()),
                        1 => e_reg(self.scratch()),
                        _ => self.e8(0),
                    };
                    let r = ret_site(self.rng);
                    jmps.push(jmp(self.fresh("call"), Jmp::CallInd { target: e, return_: r }));
                }
            }
            let mut b = blk(blk_tids[i].clone(), defs, jmps);
            b.term.indirect_jmp_targets = indirect_targets;
            blocks.push(b);
        }
        let mut s = sub(tid(&format!("sub_{name}"), &format!("{name}00")), name, blocks);
        if self.rng.bool() {
            s.term.calling_convention = Some("__stdcall".to_string());
        }
        s
    }
}

fn gen_extern(rng: &mut Rng, name: &str, no_return: bool, allow_subreg: bool) -> ExternSymbol {
    let t = tid(&format!("sub_{name}"), name);
    let k = if no_return { rng.range_usize(0, 2) } else { rng.range_usize(1, 3) };
    let mut regs: Vec<&'static str> = PARAM_REGS.to_vec();
    // mostly a prefix of the convention's order, sometimes an arbitrary subset
    if rng.chance(1, 2) {
        rng.shuffle(&mut regs);
    }
    let params: Vec<&str> = regs[..k].to_vec();
    let mut sym = extern_symbol(name, t, &params, Some("RAX"), no_return);
    if allow_subreg && !sym.parameters.is_empty() {
        let i = rng.usize_below(sym.parameters.len());
        let r = params[i];
        let expr = match rng.below(3) {
            0 => e_subpiece(0, 4, e_reg(r)),
            1 => e_subpiece(0, 1, e_reg(r)),
            _ => e_subpiece(0, 2, e_reg(r)),
        };
        sym.parameters[i] = Arg::Register { expr, data_type: None };
    }
    sym
}

/// Generate one program (not normalised).
pub fn gen_project(rng: &mut Rng) -> Project {
    let mut externs = vec![gen_extern(rng, "ext_fn_1", false, false)];
    if rng.chance(3, 4) {
        let sub = rng.chance(1, 3);
        externs.push(gen_extern(rng, "ext_fn_2", false, sub));
    }
    if rng.chance(1, 2) {
        externs.push(gen_extern(rng, "ext_halt_3", true, false));
    }
    let ext_tids: Vec<Tid> = externs.iter().map(|e| e.tid.clone()).collect();
    let n_subs = match rng.below(8) {
        0 | 1 => 1,
        2..=4 => 2,
        5 | 6 => 3,
        _ => 4,
    };
    let names: Vec<String> = (0..n_subs).map(|i| format!("f{i}")).collect();
    let sub_tids: Vec<Tid> = names.iter().map(|n| tid(&format!("sub_{n}"), &format!("{n}00"))).collect();
    let indirect_weight = *rng.pick(&[0u64, 0, 1, 3]);
    let mut g = Gen { rng, counter: 0, focus: vec![], temps8: vec![] };
    let mut subs = Vec::new();
    for n in &names {
        subs.push(g.function(n, &sub_tids, &ext_tids, indirect_weight));
    }
    let entry = subs[0].tid.clone();
    let mut project = project_x64(program(subs, externs, Some(entry)));
    if g.rng.chance(1, 8) {
        // "Sometimes parameter registers are callee-saved": declare one or two of them callee-saved
        let cc = project.calling_conventions.get_mut("__stdcall").unwrap();
        let k = g.rng.range_usize(1, 2);
        // (never a return register: RDX is one in this convention)
        let mut regs: Vec<&'static str> = PARAM_REGS.iter().copied().filter(|r| *r != "RDX").collect();
        g.rng.shuffle(&mut regs);
        for r in &regs[..k] {
            cc.callee_saved_register.push(reg(r));
        }
    }
    project
}

// ---------------------------------------------------------------------------------------------
// Template workload: a function annotated with its OWN (non-standard) calling convention.
// The main oracle handles one convention per program; this template covers "each parameter register of the
// function's calling convention" for functions whose convention differs from the project's standard one
// (e.g. the Linux syscall convention with R10 on x86-64): straight-line / diamond functions without calls in which
// the extra register is read in the entry block before any write - it must be reported, no path reasoning needed.

pub fn alt_cconv_case(rng: &mut Rng) -> (Project, Vec<String>) {
    let extra = *rng.pick(&["R10", "R11", "R12"]);
    let mut n = 0u32;
    let mut t = |p: &str| -> Tid {
        n += 1;
        tid(&format!("{p}_alt_{n}"), &format!("{:04x}", 0x3000 + n * 4))
    };
    let std_reg = *rng.pick(&["RDI", "RSI", "RDX"]);
    let mut must: Vec<String> = vec![extra.to_string()];
    let mut defs = Vec::new();
    // optional unrelated prefix that does not touch `extra`
    if rng.bool() {
        defs.push(assign(t("d"), reg("RAX"), e_bin(BinOpType::IntAdd, e_reg(std_reg), e_const(1, 8))));
        must.push(std_reg.to_string());
    }
    match rng.below(5) {
        0 => defs.push(assign(t("d"), reg("RBX"), e_bin(BinOpType::IntAdd, e_reg(extra), e_const(rng.range_i64(1, 64), 8)))),
        1 => defs.push(load(t("d"), reg("RBX"), e_bin(BinOpType::IntAdd, e_reg(extra), e_const(8, 8)))),
        2 => defs.push(store(t("d"), e_reg(extra), e_const(0, 8))),
        3 => defs.push(assign(t("d"), reg("RBX"), e_reg(extra))),
        _ => defs.push(assign(t("d"), var("ZF", 1), e_bin(BinOpType::IntEqual, e_reg(extra), e_const(0, 8)))),
    }
    // overwrite afterwards (must not matter)
    if rng.bool() {
        defs.push(assign(t("d"), reg(extra), e_const(0, 8)));
    }
    let b0 = tid("blk_alt_0", "alt00");
    let b1 = tid("blk_alt_1", "alt01");
    let two_blocks = rng.bool();
    let mut blocks = Vec::new();
    if two_blocks {
        blocks.push(blk(b0, defs, vec![jmp(t("j"), Jmp::Branch(b1.clone()))]));
        blocks.push(blk(b1, vec![assign(t("d"), reg("RCX"), e_reg("RAX"))], vec![jmp(t("j"), Jmp::Return(e_reg("RAX")))]));
    } else {
        blocks.push(blk(b0, defs, vec![jmp(t("j"), Jmp::Return(e_reg("RAX")))]));
    }
    let mut f = sub(tid("sub_alt", "alt00"), "alt", blocks);
    f.term.calling_convention = Some("__altcall".to_string());
    let entry = f.tid.clone();
    let mut project = project_x64(program(vec![f], vec![], Some(entry)));
    let mut alt = project.calling_conventions["__stdcall"].clone();
    alt.name = "__altcall".to_string();
    alt.integer_parameter_register = ["RDI", "RSI", "RDX", extra, "R8", "R9"].iter().map(|r| reg(r)).collect();
    alt.callee_saved_register.retain(|v| v.name != extra);
    project.calling_conventions.insert("__altcall".to_string(), alt);
    (project, must)
}

pub fn alt_cconv_check(project: &Project, must: &[String], rep: &mut Report) {
    rep.eval();
    let mut p = project.clone();
    let res = guard(|| {
        let _ = p.normalize_basic();
        let graph = get_program_cfg(&p.program);
        let (sigs, _logs) = compute_function_signatures(&p, &graph);
        sigs.iter()
            .find(|(t, _)| format!("{t}") == "sub_alt")
            .map(|(_, sig)| sig.parameters.keys().filter_map(|loc| if let AbstractLocation::Register(v) = loc { Some(v.name.clone()) } else { None }).collect::<BTreeSet<String>>())
    });
    let case = || json!({"kind": "alt-cconv", "project": project_to_json(project), "must": must});
    match res {
        Err(msg) => rep.violation(format!("alt-cconv:panic:{}", panic_site(&msg)), None, format!("function signature analysis panicked on a function with its own calling convention: {msg}"), case(), 5),
        Ok(None) => rep.inconclusive("alt-cconv:no-signature-for-function"),
        Ok(Some(reported)) => {
            for r in must {
                if !reported.contains(r) {
                    rep.violation(
                        "miss:own-calling-convention",
                        None,
                        format!("function `alt` is annotated with calling convention __altcall (parameters RDI,RSI,RDX,{},R8,R9) and reads the entry value of {r} in its entry block, but the reported register parameters are {reported:?}\n{}", must[0], show_program(&project.program.term)),
                        case(),
                        5,
                    );
                }
            }
            rep.obs("workload:own-calling-convention");
            rep.nontrivial(fp_of(&project.program) ^ 0xa17c);
        }
    }
}

/// Template workload: a parameter register is stored through a pointer that is the address of a stack slot on one path
/// and a non-stack pointer (another parameter, a pointer loaded through it, or a global) on the other. The main
/// oracle excuses every store of a bare register through a possibly stack-derived address as a spill; here the
/// path on which the address is not a stack address is known by construction, so the stored register is read there.
pub fn merged_pointer_case(rng: &mut Rng) -> (Project, Vec<String>) {
    let mut n = 0u32;
    let mut t = |p: &str| -> Tid {
        n += 1;
        tid(&format!("{p}_mp_{n}"), &format!("{:04x}", 0x5000 + n * 4))
    };
    let out = *rng.pick(&["RDI", "RDX", "RCX"]);
    let val = *rng.pick(&["RSI", "R8", "R9"]);
    let p = *rng.pick(&["RAX", "R10", "R11", "RBX"]);
    let off = *rng.pick(&[-8i64, -16, -0x20, -0x48]);
    let via_rbp = rng.chance(1, 3);
    let b = |i: u32| tid(&format!("blk_mp_{i}"), &format!("mp{i:02}"));
    // the non-stack alternative
    let mut other_defs = Vec::new();
    match rng.below(4) {
        0 | 1 => other_defs.push(assign(t("d"), reg(p), e_reg(out))),
        2 => other_defs.push(load(t("d"), reg(p), e_bin(BinOpType::IntAdd, e_reg(out), e_const(8, 8)))),
        _ => other_defs.push(assign(t("d"), reg(p), e_const(0x601040, 8))),
    }
    // the stack alternative
    let mut stack_defs = Vec::new();
    let base = if via_rbp { "RBP" } else { "RSP" };
    stack_defs.push(assign(t("d"), reg(p), e_bin(BinOpType::IntAdd, e_reg(base), e_const(off, 8))));
    let mut entry_defs = Vec::new();
    if via_rbp {
        entry_defs.push(assign(t("d"), reg("RBP"), e_reg("RSP")));
    }
    if rng.bool() {
        entry_defs.push(assign(t("d"), reg("R12"), e_const(rng.range_i64(0, 9), 8)));
    }
    // which alternative is assigned before the branch and which in the conditional block
    let (first, second) = if rng.bool() { (other_defs, stack_defs) } else { (stack_defs, other_defs) };
    entry_defs.extend(first);
    let cond = e_bin(BinOpType::IntEqual, e_reg("R13"), e_const(0, 8));
    let k = if rng.chance(1, 4) { 8 } else { 0 };
    let addr = if k == 0 { e_reg(p) } else { e_bin(BinOpType::IntAdd, e_reg(p), e_const(k, 8)) };
    let mut tail = vec![store(t("d"), addr, e_reg(val))];
    if rng.bool() {
        // overwritten afterwards: must not matter
        tail.push(assign(t("d"), reg(val), e_const(0, 8)));
    }
    let blocks = vec![
        blk(b(0), entry_defs, vec![jmp(t("j"), Jmp::CBranch { target: b(2), condition: cond }), jmp(t("j"), Jmp::Branch(b(1)))]),
        blk(b(1), second, vec![jmp(t("j"), Jmp::Branch(b(2)))]),
        blk(b(2), tail, vec![jmp(t("j"), Jmp::Return(e_reg("R14")))]),
    ];
    let f = sub(tid("sub_mp", "mp00"), "mp", blocks);
    let entry = f.tid.clone();
    let project = project_x64(program(vec![f], vec![], Some(entry)));
    (project, vec![val.to_string()])
}

pub fn merged_pointer_check(project: &Project, must: &[String], rep: &mut Report) {
    rep.eval();
    let mut p = project.clone();
    let res = guard(|| {
        let _ = p.normalize_basic();
        let graph = get_program_cfg(&p.program);
        let (sigs, _logs) = compute_function_signatures(&p, &graph);
        sigs.iter()
            .find(|(t, _)| format!("{t}") == "sub_mp")
            .map(|(_, sig)| sig.parameters.keys().filter_map(|loc| if let AbstractLocation::Register(v) = loc { Some(v.name.clone()) } else { None }).collect::<BTreeSet<String>>())
    });
    let case = || json!({"kind": "merged-pointer", "project": project_to_json(project), "must": must});
    match res {
        Err(msg) => rep.violation(format!("merged-pointer:panic:{}", panic_site(&msg)), None, format!("function signature analysis panicked: {msg}"), case(), 6),
        Ok(None) => rep.inconclusive("merged-pointer:no-signature-for-function"),
        Ok(Some(reported)) => {
            for r in must {
                if !reported.contains(r) {
                    rep.violation(
                        "miss:store-through-stack-or-other-pointer",
                        None,
                        format!("function `mp` stores the entry value of {r} through a pointer that is a stack address on one path and not a stack address on the other (so on that path the value is written to foreign memory, i.e. read), but the reported register parameters are {reported:?}\n{}", show_program(&project.program.term)),
                        case(),
                        6,
                    );
                }
            }
            rep.obs("workload:store-through-stack-or-other-pointer");
            rep.nontrivial(fp_of(&project.program) ^ 0x3b9d);
        }
    }
}

fn run(cfg: &Cfg) -> Report {
    let shards = cfg.tier.pick(768usize, 2048usize);
    let per_shard = cfg.tier.pick(120usize, 320usize);
    let mut rep = par_shards(cfg, "c14", shards, |idx, rng, rep| {
        for _ in 0..4 {
            let (project, must) = alt_cconv_case(rng);
            alt_cconv_check(&project, &must, rep);
        }
        for _ in 0..4 {
            let (project, must) = merged_pointer_case(rng);
            merged_pointer_check(&project, &must, rep);
        }
        for i in 0..per_shard {
            if TIMEOUTS.load(std::sync::atomic::Ordering::SeqCst) >= MAX_TIMEOUTS {
                rep.inconclusive("program-skipped-after-repeated-timeouts");
                continue;
            }
            let raw = match guard(|| gen_project(rng)) {
                Ok(p) => p,
                Err(msg) => {
                    rep.inconclusive(&format!("generator-panic:{}", panic_site(&msg)));
                    continue;
                }
            };
            if i == 0 {
                let errs = crate::typing::check_project(&raw, true);
                if !errs.is_empty() {
                    rep.inconclusive("generator-produced-ill-typed-program");
                    rep.note(format!("ill-typed generated program: {}", errs[0]));
                    continue;
                }
            }
            let want_sample = idx < 3 && i == 0;
            check_case(&raw, false, rep, want_sample);
            if i % 3 == 0 {
                check_case(&raw, true, rep, false);
            }
        }
    });
    minimize_violations(&mut rep);
    rep.note("shapes driven are summarised by the observed keys exposed-use:*, must-report-size:*, reachable-blocks:*; not-demanded:* counts the deliberately excluded use classes and what the analysis did with them");
    rep
}

// ---------------------------------------------------------------------------------------------
// Hand-written minimal witnesses of the known findings (replay case `{"witness": "<key>"}`)

pub fn builtin_witness(key: &str) -> Option<Project> {
    let t = |p: &str, n: u32| tid(&format!("{p}_{n}"), &format!("{:06x}", 0x1000 + n * 4));
    let b = |f: &str, i: u32| tid(&format!("blk_{f}_{i}"), &format!("{f}{i:02}"));
    let ext_fn = extern_symbol("ext_fn_1", tid("sub_ext_fn_1", "ext_fn_1"), &["RDI", "RSI"], Some("RAX"), false);
    let halt_params: &[&str] = if key == KNOWN_COMBINATION { &[] } else { &["RDI"] };
    let ext_halt = extern_symbol("ext_halt_3", tid("sub_ext_halt_3", "ext_halt_3"), halt_params, None, true);
    let f0 = tid("sub_f0", "f000");
    let f1 = tid("sub_f1", "f100");
    let ret = |n: u32| jmp(t("jmp", n), Jmp::Return(e_reg("RAX")));
    // f1(…, x): y = x; ext_halt_3(…)   — reads RSI (and passes RDI on), never returns
    let callee = sub(
        f1.clone(),
        "f1",
        vec![blk(b("f1", 0), vec![assign(t("def", 20), reg("RDX"), e_reg("RSI"))], vec![jmp(t("call", 21), Jmp::Call { target: ext_halt.tid.clone(), return_: Some(b("f1", 0)) })])],
    );
    let subs = match key {
        // f0(a, b): ext_fn_1(a, b) as a call without return site (tail call / no fall-through known)
        KNOWN_NO_RETURN_SITE => vec![sub(f0.clone(), "f0", vec![blk(b("f0", 0), vec![], vec![jmp(t("call", 1), Jmp::Call { target: ext_fn.tid.clone(), return_: None })])])],
        // f0(a, b): f1(a, b); return      — f1 reads both but never returns
        KNOWN_NONRETURNING_CALLEE_PATH => vec![
            sub(
                f0.clone(),
                "f0",
                vec![blk(b("f0", 0), vec![], vec![jmp(t("call", 1), Jmp::Call { target: f1.clone(), return_: Some(b("f0", 1)) })]), blk(b("f0", 1), vec![], vec![ret(2)])],
            ),
            callee,
        ],
        // f0(_, b): if (ZF) f1(_, b) else ext_fn_1(_, b) without return site; return
        KNOWN_COMBINATION => vec![
            sub(
                f0.clone(),
                "f0",
                vec![
                    blk(
                        b("f0", 0),
                        vec![assign(t("def", 1), reg("RDI"), e_const(0, 8))],
                        vec![jmp(t("jmp", 2), Jmp::CBranch { target: b("f0", 1), condition: e_var(&var("ZF", 1)) }), jmp(t("jmp", 3), Jmp::Branch(b("f0", 2)))],
                    ),
                    blk(b("f0", 1), vec![], vec![jmp(t("call", 4), Jmp::Call { target: f1.clone(), return_: Some(b("f0", 3)) })]),
                    blk(b("f0", 2), vec![], vec![jmp(t("call", 5), Jmp::Call { target: ext_fn.tid.clone(), return_: None })]),
                    blk(b("f0", 3), vec![], vec![ret(6)]),
                ],
            ),
            callee,
        ],
        _ => return None,
    };
    Some(project_x64(program(subs, vec![ext_fn, ext_halt], Some(f0))))
}

fn replay(_cfg: &Cfg, case: &Value) -> Report {
    let mut rep = Report::new();
    if let Some(key) = case["witness"].as_str() {
        match guard(|| builtin_witness(key)) {
            Ok(Some(raw)) => check_case(&raw, false, &mut rep, true),
            Ok(None) => rep.note(format!("unknown built-in witness {key}")),
            Err(m) => rep.note(format!("building the witness {key} panicked: {m}")),
        }
        return rep;
    }
    if case["kind"] == json!("merged-pointer") {
        if let Ok(project) = project_from_json(&case["project"]) {
            let must: Vec<String> = case["must"].as_array().map(|a| a.iter().filter_map(|x| x.as_str().map(|s| s.to_string())).collect()).unwrap_or_default();
            merged_pointer_check(&project, &must, &mut rep);
        }
        return rep;
    }
    if case["kind"] == json!("alt-cconv") {
        if let Ok(project) = project_from_json(&case["project"]) {
            let must: Vec<String> = case["must"].as_array().map(|a| a.iter().filter_map(|x| x.as_str().map(|s| s.to_string())).collect()).unwrap_or_default();
            alt_cconv_check(&project, &must, &mut rep);
        }
        return rep;
    }
    match project_from_json(&case["project"]) {
        Ok(raw) => {
            let optimize = case["optimize"].as_bool().unwrap_or(false);
            check_case(&raw, optimize, &mut rep, true);
        }
        Err(e) => rep.note(format!("cannot parse replay case: {e}")),
    }
    rep
}
