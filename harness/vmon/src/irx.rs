//! `irx` — reference interpreter for the IR (`Term<Sub>` / `Term<Blk>`).
//!
//! Concrete state: variables keyed by the full `Variable` (name, size, is_temp),
//! sparse byte memory whose unwritten bytes are a deterministic function of
//! (seed, address). Expressions are evaluated by `pref`, never by the crate's
//! own `Bitvector::bin_op`. Calls are opaque: after the event a deterministic
//! havoc keyed by (seed, ordinal of the call) rewrites every register that is
//! not callee-saved.

use crate::conv::*;
use crate::pref::{self, V};
use crate::prng::{hash_str, mix};
use cwe_checker_lib::intermediate_representation::*;
use std::collections::BTreeMap;

#[derive(Clone, Debug, PartialEq, Eq)]
pub enum Ev {
    Load { addr: u64, size: u32, val: u128 },
    Store { addr: u64, size: u32, val: u128 },
    /// kind: "direct" | "indirect" | "other"; target: tid / value / description
    Call { kind: &'static str, target: String, digest: u64 },
    BranchInd { target: u128, digest: u64 },
    Return { digest: u64 },
    DeadEnd { why: &'static str, digest: u64 },
    /// The program did something without defined semantics (undefined temp read, unsupported op, division by zero).
    Undefined { what: String },
    /// An access to the guarded (NULL) address range aborted the run.
    NullAbort { addr: u64 },
    Capped,
}

#[derive(Clone, Debug, Default)]
pub struct State {
    pub vars: BTreeMap<Variable, V>,
    pub mem: BTreeMap<u64, u8>,
    pub calls: u64,
}

pub struct Machine {
    pub seed: u64,
    pub little_endian: bool,
    pub max_blocks: usize,
    pub max_events: usize,
    /// registers rewritten by a call (everything not callee-saved)
    pub havoc_regs: Vec<Variable>,
    /// accesses to addresses a with lo < a < hi (as signed 64-bit) abort the run
    pub null_guard: Option<(i64, i64)>,
    /// physical registers whose value is part of the digest (None = all non-temp variables ever written/initialised)
    pub digest_regs: Option<Vec<Variable>>,
    /// 1-byte physical registers are flags and only ever hold 0/1 (initial values and call havoc respect this)
    pub flags_01: bool,
}

/// Hooks for monitors that need to look at the state while the program runs.
pub trait Observer {
    fn block_start(&mut self, _blk: &Term<Blk>, _st: &State) {}
    fn before_def(&mut self, _def: &Term<Def>, _st: &State) {}
    fn after_def(&mut self, _def: &Term<Def>, _st: &State) {}
    fn before_jmp(&mut self, _blk: &Term<Blk>, _jmp: &Term<Jmp>, _st: &State) {}
}
pub struct NoObserver;
impl Observer for NoObserver {}

pub enum Stop {
    Undefined(String),
    NullAbort(u64),
}

impl State {
    pub fn set(&mut self, v: &Variable, val: V) {
        debug_assert_eq!(u64::from(v.size) as u32, val.w);
        self.vars.insert(v.clone(), val);
    }
    pub fn get(&self, v: &Variable) -> Option<V> {
        self.vars.get(v).copied()
    }
}

impl Machine {
    pub fn new(seed: u64) -> Machine {
        Machine {
            seed,
            little_endian: true,
            max_blocks: 200,
            max_events: 2000,
            havoc_regs: Vec::new(),
            null_guard: None,
            digest_regs: None,
            flags_01: true,
        }
    }

    pub fn initial_byte(&self, addr: u64) -> u8 {
        (mix(self.seed ^ 0x6d656d, addr) & 0xff) as u8
    }

    /// Value of a physical register that was never written: deterministic function of (seed, name, size).
    pub fn initial_reg(&self, v: &Variable) -> V {
        let w = u64::from(v.size) as u32;
        let h = hash_str(&v.name);
        let lo = mix(self.seed ^ 0x726567, h) as u128;
        let hi = mix(self.seed ^ 0x726568, h) as u128;
        if w == 1 && self.flags_01 {
            return V::new(lo & 1, 1);
        }
        V::new((hi << 64) | lo, w)
    }

    pub fn read_var(&self, st: &State, v: &Variable) -> Result<V, Stop> {
        match st.vars.get(v) {
            Some(val) => Ok(*val),
            None => {
                if v.is_temp {
                    Err(Stop::Undefined(format!("read of undefined temporary {v}")))
                } else {
                    Ok(self.initial_reg(v))
                }
            }
        }
    }

    pub fn eval(&self, st: &State, e: &Expression) -> Result<V, Stop> {
        match e {
            Expression::Var(v) => self.read_var(st, v),
            Expression::Const(bv) => Ok(from_bv(bv)),
            Expression::BinOp { op, lhs, rhs } => {
                let a = self.eval(st, lhs)?;
                let b = self.eval(st, rhs)?;
                let same = !matches!(op, BinOpType::Piece | BinOpType::IntLeft | BinOpType::IntRight | BinOpType::IntSRight);
                if same && a.w != b.w {
                    return Err(Stop::Undefined(format!("operand sizes differ in {e}")));
                }
                pref::bin(*op, a, b).ok_or_else(|| Stop::Undefined(format!("no defined value for {op:?} on {a:?},{b:?}")))
            }
            Expression::UnOp { op, arg } => {
                let a = self.eval(st, arg)?;
                pref::un(*op, a).ok_or_else(|| Stop::Undefined(format!("no defined value for {op:?}")))
            }
            Expression::Cast { op, size, arg } => {
                let a = self.eval(st, arg)?;
                let size = u64::from(*size) as u32;
                if matches!(op, CastOpType::IntZExt | CastOpType::IntSExt) && size < a.w {
                    return Err(Stop::Undefined(format!("extension to a smaller size in {e}")));
                }
                pref::cast(*op, size, a).ok_or_else(|| Stop::Undefined(format!("no defined value for {op:?}")))
            }
            Expression::Subpiece { low_byte, size, arg } => {
                let a = self.eval(st, arg)?;
                let (low, size) = (u64::from(*low_byte) as u32, u64::from(*size) as u32);
                if low + size > a.w || size == 0 {
                    return Err(Stop::Undefined(format!("subpiece out of range in {e}")));
                }
                Ok(pref::subpiece(low, size, a))
            }
            Expression::Unknown { description, .. } => Err(Stop::Undefined(format!("unknown expression {description}"))),
        }
    }

    fn guard_addr(&self, addr: u64, size: u32) -> Result<(), Stop> {
        if let Some((lo, hi)) = self.null_guard {
            for a in [addr, addr.wrapping_add(size as u64 - 1)] {
                let s = a as i64;
                if s > lo && s < hi {
                    return Err(Stop::NullAbort(addr));
                }
            }
        }
        Ok(())
    }

    pub fn load_mem(&self, st: &State, addr: u64, size: u32) -> u128 {
        let mut val: u128 = 0;
        for i in 0..size as u64 {
            let a = addr.wrapping_add(i);
            let byte = st.mem.get(&a).copied().unwrap_or_else(|| self.initial_byte(a)) as u128;
            if self.little_endian {
                val |= byte << (8 * i);
            } else {
                val = (val << 8) | byte;
            }
        }
        val
    }

    pub fn store_mem(&self, st: &mut State, addr: u64, size: u32, val: u128) {
        for i in 0..size as u64 {
            let a = addr.wrapping_add(i);
            let byte = if self.little_endian {
                (val >> (8 * i)) & 0xff
            } else {
                (val >> (8 * (size as u64 - 1 - i))) & 0xff
            } as u8;
            st.mem.insert(a, byte);
        }
    }

    pub fn digest(&self, st: &State) -> u64 {
        let mut h: u64 = 0x1234_5678;
        match &self.digest_regs {
            Some(regs) => {
                for r in regs {
                    let v = st.vars.get(r).copied().unwrap_or_else(|| self.initial_reg(r));
                    h = mix(h, hash_str(&r.name));
                    h = mix(h, v.v as u64 ^ ((v.v >> 64) as u64).rotate_left(13));
                }
            }
            None => {
                for (r, v) in st.vars.iter().filter(|(r, _)| !r.is_temp) {
                    // a register holding its initial value contributes like an unwritten one
                    if *v == self.initial_reg(r) {
                        continue;
                    }
                    h = mix(h, hash_str(&r.name) ^ u64::from(r.size));
                    h = mix(h, v.v as u64 ^ ((v.v >> 64) as u64).rotate_left(13));
                }
            }
        }
        for (a, b) in st.mem.iter() {
            if *b == self.initial_byte(*a) {
                continue; // a byte rewritten with its initial content is indistinguishable from an unwritten one
            }
            h = mix(h, *a);
            h = mix(h, *b as u64);
        }
        h
    }

    fn havoc(&self, st: &mut State) {
        st.calls += 1;
        for r in &self.havoc_regs {
            let w = u64::from(r.size) as u32;
            let h = mix(mix(self.seed ^ 0x6861766f63, st.calls), hash_str(&r.name));
            let h2 = mix(h, 0x5a5a);
            let val = if w == 1 && self.flags_01 { (h & 1) as u128 } else { ((h2 as u128) << 64) | h as u128 };
            st.vars.insert(r.clone(), V::new(val, w));
        }
    }

    /// Execute one def. Events are appended to `trace`.
    pub fn exec_def(&self, st: &mut State, def: &Term<Def>, trace: &mut Vec<Ev>) -> Result<(), Stop> {
        match &def.term {
            Def::Assign { var, value } => {
                let v = self.eval(st, value)?;
                if v.w != u64::from(var.size) as u32 {
                    return Err(Stop::Undefined(format!("assignment size mismatch at {}", def.tid)));
                }
                st.vars.insert(var.clone(), v);
            }
            Def::Load { var, address } => {
                let a = self.eval(st, address)?;
                let addr = a.v as u64;
                let size = u64::from(var.size) as u32;
                self.guard_addr(addr, size)?;
                let val = self.load_mem(st, addr, size);
                trace.push(Ev::Load { addr, size, val });
                st.vars.insert(var.clone(), V::new(val, size));
            }
            Def::Store { address, value } => {
                let a = self.eval(st, address)?;
                let v = self.eval(st, value)?;
                let addr = a.v as u64;
                self.guard_addr(addr, v.w)?;
                self.store_mem(st, addr, v.w, v.v);
                trace.push(Ev::Store { addr, size: v.w, val: v.v });
            }
        }
        Ok(())
    }

    /// Run a function from its first block. Returns the event trace.
    pub fn run_sub(&self, sub: &Term<Sub>, st: &mut State, obs: &mut dyn Observer) -> Vec<Ev> {
        let mut trace: Vec<Ev> = Vec::new();
        let blocks: BTreeMap<&Tid, &Term<Blk>> = sub.term.blocks.iter().map(|b| (&b.tid, b)).collect();
        let mut cur: &Term<Blk> = match sub.term.blocks.first() {
            Some(b) => b,
            None => {
                trace.push(Ev::DeadEnd { why: "empty sub", digest: self.digest(st) });
                return trace;
            }
        };
        let mut steps = 0usize;
        'outer: loop {
            steps += 1;
            if steps > self.max_blocks || trace.len() > self.max_events {
                trace.push(Ev::Capped);
                return trace;
            }
            obs.block_start(cur, st);
            for def in &cur.term.defs {
                obs.before_def(def, st);
                match self.exec_def(st, def, &mut trace) {
                    Ok(()) => (),
                    Err(Stop::Undefined(what)) => {
                        trace.push(Ev::Undefined { what });
                        return trace;
                    }
                    Err(Stop::NullAbort(addr)) => {
                        trace.push(Ev::NullAbort { addr });
                        return trace;
                    }
                }
                obs.after_def(def, st);
            }
            if cur.term.jmps.is_empty() {
                trace.push(Ev::DeadEnd { why: "no jump", digest: self.digest(st) });
                return trace;
            }
            for (i, j) in cur.term.jmps.iter().enumerate() {
                obs.before_jmp(cur, j, st);
                let next: Option<&Tid> = match &j.term {
                    Jmp::CBranch { target, condition } => {
                        let c = match self.eval(st, condition) {
                            Ok(c) => c,
                            Err(Stop::Undefined(what)) => {
                                trace.push(Ev::Undefined { what });
                                return trace;
                            }
                            Err(Stop::NullAbort(addr)) => {
                                trace.push(Ev::NullAbort { addr });
                                return trace;
                            }
                        };
                        if c.v != 0 {
                            Some(target)
                        } else if i + 1 < cur.term.jmps.len() {
                            continue;
                        } else {
                            trace.push(Ev::DeadEnd { why: "conditional without fallthrough", digest: self.digest(st) });
                            return trace;
                        }
                    }
                    Jmp::Branch(target) => Some(target),
                    Jmp::BranchInd(expr) => {
                        match self.eval(st, expr) {
                            Ok(t) => trace.push(Ev::BranchInd { target: t.v, digest: self.digest(st) }),
                            Err(Stop::Undefined(what)) => trace.push(Ev::Undefined { what }),
                            Err(Stop::NullAbort(addr)) => trace.push(Ev::NullAbort { addr }),
                        }
                        return trace;
                    }
                    Jmp::Call { target, return_ } => {
                        trace.push(Ev::Call { kind: "direct", target: format!("{target}"), digest: self.digest(st) });
                        self.havoc(st);
                        match return_ {
                            Some(r) => Some(r),
                            None => return trace,
                        }
                    }
                    Jmp::CallInd { target, return_ } => {
                        match self.eval(st, target) {
                            Ok(t) => trace.push(Ev::Call { kind: "indirect", target: format!("{:#x}", t.v), digest: self.digest(st) }),
                            Err(Stop::Undefined(what)) => {
                                trace.push(Ev::Undefined { what });
                                return trace;
                            }
                            Err(Stop::NullAbort(addr)) => {
                                trace.push(Ev::NullAbort { addr });
                                return trace;
                            }
                        }
                        self.havoc(st);
                        match return_ {
                            Some(r) => Some(r),
                            None => return trace,
                        }
                    }
                    Jmp::CallOther { description, return_ } => {
                        trace.push(Ev::Call { kind: "other", target: description.clone(), digest: self.digest(st) });
                        self.havoc(st);
                        match return_ {
                            Some(r) => Some(r),
                            None => return trace,
                        }
                    }
                    Jmp::Return(_) => {
                        trace.push(Ev::Return { digest: self.digest(st) });
                        return trace;
                    }
                };
                match next.and_then(|t| blocks.get(t)) {
                    Some(b) => {
                        cur = b;
                        continue 'outer;
                    }
                    None => {
                        trace.push(Ev::DeadEnd { why: "target not in sub", digest: self.digest(st) });
                        return trace;
                    }
                }
            }
            trace.push(Ev::DeadEnd { why: "fell through all jumps", digest: self.digest(st) });
            return trace;
        }
    }

    /// Execute the defs of a single block (no jumps). Returns Err(event) if it stopped early.
    pub fn run_block_defs(&self, blk: &Term<Blk>, st: &mut State, trace: &mut Vec<Ev>) -> Result<(), Ev> {
        for def in &blk.term.defs {
            match self.exec_def(st, def, trace) {
                Ok(()) => (),
                Err(Stop::Undefined(what)) => return Err(Ev::Undefined { what }),
                Err(Stop::NullAbort(addr)) => return Err(Ev::NullAbort { addr }),
            }
        }
        Ok(())
    }
}

/// Temporaries do not survive a block in the reference semantics either, but they are simply kept in `vars`;
/// call this between blocks to drop them when a monitor wants to detect cross-block temporary reads.
pub fn drop_temporaries(st: &mut State) {
    st.vars.retain(|v, _| !v.is_temp);
}
