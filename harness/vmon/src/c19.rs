//! C19 — global memory queries agree with the loaded memory image.
//!
//! Monitor shape: reference model. Every image under test comes with a *model*
//! (list of segments: base, bytes, flags + byte order) written by the harness from
//! the specification of the image source (direct construction, ELF program headers,
//! ELF section headers of a relocatable object / kernel module, bare-metal config).
//! The model is flattened into a byte map `address -> (segment, byte)`; every query
//! function of `RuntimeMemoryImage` is called at every address around every segment
//! boundary and judged against the byte map only.

use crate::conv::*;
use crate::core::*;
use crate::prng::{hash_bytes, mix, Rng};
use cwe_checker_lib::intermediate_representation::{Bitvector, RuntimeMemoryImage};
use cwe_checker_lib::utils::binary::{BareMetalConfig, MemorySegment};
use serde::{Deserialize, Serialize};
use serde_json::{json, Value};
use std::collections::BTreeMap;

pub fn info() -> CheckInfo {
    CheckInfo {
        id: "C19",
        rule: "RuntimeMemoryImage values (built directly from 1-5 disjoint segments, adjacent and gapped, sizes 0..32, all flag combinations, both byte orders, optionally shifted with add_global_memory_offset; parsed by RuntimeMemoryImage::new from generated ELF32/64 LE/BE ET_EXEC/ET_DYN files with PT_LOAD headers and from ET_REL kernel-module style files with alloc sections; built by new_from_bare_metal) are queried at EVERY address from 2 bytes before to 2 bytes after each segment with read (sizes 1,2,4,8; 3 and 16 on a quarter of the images), is_global_memory_address, is_address_writeable, is_interval_readable/writeable (lengths 0,1,2,4,8), get_ro_data_pointer_at_address and read_string_until_null_terminator; each answer is judged against a flat byte map address -> (segment, byte) written by the harness. ELF/bare-metal images are additionally compared segment by segment with the model. non-trivial = the queried address lies inside a non-empty segment or exactly at its end; distinct = hash of (image, address)",
        assumptions: &[
            "read-only means write_flag == false (the read flag is not consulted by read); 'unknown content' is Ok(None)",
            "segment ends are representable: base + len <= u64::MAX - 32 (no address arithmetic wraps); read sizes >= 1; address bitvectors are at most 8 bytes wide",
            "intervals are half-open [start, end): Ok(flag) is required when start lies in segment S and end <= end of S, Err when start lies in no segment or end exceeds S; empty intervals (end == start) are only checked for absence of panics and consistency",
            "is_global_memory_address(a) is judged as membership of the address a in some segment (the property does not give it a size parameter)",
            "string reads: required to succeed with the stored bytes when the address lies in a read-only segment that contains a NUL at or after the address and the bytes before it are valid UTF-8; whenever a string is returned (any segment) it must equal the bytes stored in the image from the address up to the next NUL; no-NUL-until-segment-end and non-UTF-8 contents may fail",
            "ELF models: PT_LOAD -> bytes = file[p_offset..p_offset+p_filesz] zero-filled to p_memsz at p_vaddr with PF_R/PF_W/PF_X; ET_REL -> all SHF_ALLOC, non-SHT_NULL, non-empty sections in table order, each placed at the next address that satisfies sh_addralign starting from 0, SHT_NOBITS zero-filled, readable, writable iff SHF_WRITE, executable iff SHF_EXECINSTR; generated empty alloc sections have alignment <= 1 so that skipping or keeping them gives the same layout",
            "bare metal: flash segment (file bytes at flash base, rwx) and RAM segment (zeroes, rw-); configurations rejected by new_from_bare_metal are counted as inconclusive, not as verdicts",
            "verdicts on the release profile",
        ],
        run,
        replay,
    }
}

// ---------------------------------------------------------------------------
// Model

#[derive(Clone, Debug, Serialize, Deserialize, PartialEq, Eq)]
struct Seg {
    base: u64,
    bytes: Vec<u8>,
    r: bool,
    w: bool,
    x: bool,
}

impl Seg {
    fn end(&self) -> u64 {
        self.base + self.bytes.len() as u64
    }
}

#[derive(Clone, Debug, Serialize, Deserialize)]
struct Model {
    segs: Vec<Seg>,
    le: bool,
}

/// How the image under test is produced (everything needed to rebuild it).
#[derive(Clone, Debug, Serialize, Deserialize)]
enum Source {
    /// segments as given, then `add_global_memory_offset(offset)` if non-zero
    Direct { segs: Vec<Seg>, le: bool, is_lkm: bool, offset: u64 },
    /// `RuntimeMemoryImage::new(file)` then optional offset
    Elf { file_hex: String, what: String, offset: u64, expect_lkm: bool },
    BareMetal { binary_hex: String, config: BareMetalConfig },
}

#[derive(Clone, Debug, Serialize, Deserialize)]
struct Case {
    source: Source,
    model: Model,
    extra_sizes: bool,
}

fn hex(b: &[u8]) -> String {
    b.iter().map(|x| format!("{x:02x}")).collect()
}

fn unhex(s: &str) -> Vec<u8> {
    (0..s.len() / 2).filter_map(|i| u8::from_str_radix(&s[2 * i..2 * i + 2], 16).ok()).collect()
}

struct Flat {
    map: BTreeMap<u64, (usize, u8)>,
}

impl Flat {
    fn new(model: &Model) -> Flat {
        let mut map = BTreeMap::new();
        for (i, s) in model.segs.iter().enumerate() {
            for (k, b) in s.bytes.iter().enumerate() {
                map.insert(s.base + k as u64, (i, *b));
            }
        }
        Flat { map }
    }
    fn seg_of(&self, a: u64) -> Option<usize> {
        self.map.get(&a).map(|(s, _)| *s)
    }
    /// The segment containing all of `a .. a+n` (n >= 1).
    fn range_in_one(&self, a: u64, n: u64) -> Option<usize> {
        let s = self.seg_of(a)?;
        for k in 1..n {
            if self.seg_of(a.checked_add(k)?) != Some(s) {
                return None;
            }
        }
        Some(s)
    }
    fn byte(&self, a: u64) -> Option<u8> {
        self.map.get(&a).map(|(_, b)| *b)
    }
}

fn addr_bv(a: u64, width: u32) -> Bitvector {
    to_bv(crate::pref::V::new(a as u128, width))
}

// ---------------------------------------------------------------------------
// Building the image under test from a source

fn build_image(src: &Source) -> Result<Result<RuntimeMemoryImage, String>, String> {
    match src {
        Source::Direct { segs, le, is_lkm, offset } => {
            let mut img = RuntimeMemoryImage {
                memory_segments: segs
                    .iter()
                    .map(|s| MemorySegment { bytes: s.bytes.clone(), base_address: s.base, read_flag: s.r, write_flag: s.w, execute_flag: s.x })
                    .collect(),
                is_little_endian: *le,
                is_lkm: *is_lkm,
            };
            if *offset != 0 {
                guard(|| img.add_global_memory_offset(*offset))?;
            }
            Ok(Ok(img))
        }
        Source::Elf { file_hex, offset, .. } => {
            let file = unhex(file_hex);
            match guard(|| RuntimeMemoryImage::new(&file).map_err(|e| e.to_string()))? {
                Ok(mut img) => {
                    if *offset != 0 {
                        guard(|| img.add_global_memory_offset(*offset))?;
                    }
                    Ok(Ok(img))
                }
                Err(e) => Ok(Err(e)),
            }
        }
        Source::BareMetal { binary_hex, config } => {
            let bin = unhex(binary_hex);
            guard(|| RuntimeMemoryImage::new_from_bare_metal(&bin, config).map_err(|e| e.to_string()))
        }
    }
}

fn source_kind(src: &Source) -> String {
    match src {
        Source::Direct { offset, .. } => if *offset == 0 { "direct".into() } else { "direct+offset".into() },
        Source::Elf { what, .. } => what.clone(),
        Source::BareMetal { .. } => "bare-metal".into(),
    }
}

// ---------------------------------------------------------------------------
// The check of one image

struct Ctx<'a> {
    case: &'a Case,
    kind: String,
    size: u64,
}

impl Ctx<'_> {
    fn viol(&self, rep: &mut Report, what: &str, query: Value, detail: String) {
        let mut c = serde_json::to_value(self.case).unwrap_or(Value::Null);
        c["query"] = query;
        let sig = if what.starts_with("construct:") { format!("{}:{what}", self.kind_class()) } else { format!("query:{what}") };
        rep.violation(sig, None, detail, c, self.size);
    }
    /// coarse source class for signatures
    fn kind_class(&self) -> &str {
        if self.kind.starts_with("direct") {
            "image"
        } else if self.kind.starts_with("elf-rel") {
            "elf-rel"
        } else if self.kind.starts_with("elf") {
            "elf-exec"
        } else {
            "bare-metal"
        }
    }
}

fn seg_desc(m: &Model) -> String {
    let mut v: Vec<String> = Vec::new();
    for s in &m.segs {
        v.push(format!(
            "[{:#x},{:#x}){}{}{}",
            s.base,
            s.end(),
            if s.r { "r" } else { "-" },
            if s.w { "w" } else { "-" },
            if s.x { "x" } else { "-" }
        ));
    }
    format!("{} {}", if m.le { "LE" } else { "BE" }, v.join(" "))
}

fn check_case(case: &Case, rep: &mut Report) {
    let kind = source_kind(&case.source);
    let size = case.model.segs.iter().map(|s| 8 + s.bytes.len() as u64).sum::<u64>()
        + match &case.source {
            Source::Direct { offset, .. } => (*offset != 0) as u64,
            Source::Elf { file_hex, .. } => 1000 + file_hex.len() as u64,
            Source::BareMetal { .. } => 500,
        };
    let ctx = Ctx { case, kind: kind.clone(), size };
    let model = &case.model;
    let img = match build_image(&case.source) {
        Err(p) => {
            rep.eval();
            ctx.viol(rep, &format!("construct:panic:{}", panic_site(&p)), json!(null), format!("constructing the image ({kind}) panicked: {p}; model {}", seg_desc(model)));
            return;
        }
        Ok(Err(e)) => {
            rep.eval();
            match &case.source {
                Source::BareMetal { config, .. } => {
                    rep.inconclusive(&format!("bare-metal-config-rejected:{}", bare_metal_class(config, unhex_len(&case.source))));
                    rep.note(format!("new_from_bare_metal rejected a configuration whose binary fits into the address space: {config:?} with {} bytes: {e}", unhex_len(&case.source)));
                }
                _ => ctx.viol(rep, "construct:rejected", json!(null), format!("RuntimeMemoryImage::new rejected a generated well-formed ELF file ({kind}): {e}; model {}", seg_desc(model))),
            }
            return;
        }
        Ok(Ok(img)) => img,
    };
    rep.obs(&format!("source:{kind}"));

    // ---- structural comparison (non-empty segments, as sets ordered by base address)
    rep.eval();
    if img.is_little_endian != model.le {
        ctx.viol(rep, "construct:byte-order", json!(null), format!("image byte order little_endian={} but the source says {}", img.is_little_endian, model.le));
    }
    if let Source::Elf { expect_lkm, .. } = &case.source {
        if img.is_lkm != *expect_lkm {
            ctx.viol(rep, "construct:is_lkm", json!(null), format!("is_lkm = {} but expected {} (both .modinfo and .gnu.linkonce.this_module present <=> kernel module)", img.is_lkm, expect_lkm));
        }
    }
    if !matches!(case.source, Source::Direct { offset: 0, .. }) {
        let mut got: Vec<Seg> = img
            .memory_segments
            .iter()
            .filter(|s| !s.bytes.is_empty())
            .map(|s| Seg { base: s.base_address, bytes: s.bytes.clone(), r: s.read_flag, w: s.write_flag, x: s.execute_flag })
            .collect();
        let mut exp: Vec<Seg> = model.segs.iter().filter(|s| !s.bytes.is_empty()).cloned().collect();
        got.sort_by_key(|s| s.base);
        exp.sort_by_key(|s| s.base);
        if got != exp {
            let what = if got.len() != exp.len() {
                "construct:segment-count"
            } else if got.iter().zip(exp.iter()).any(|(g, e)| g.base != e.base) {
                "construct:segment-base"
            } else if got.iter().zip(exp.iter()).any(|(g, e)| g.bytes != e.bytes) {
                "construct:segment-bytes"
            } else {
                "construct:segment-flags"
            };
            let show = |v: &[Seg]| v.iter().map(|s| format!("[{:#x}+{}{}{}{} {}]", s.base, s.bytes.len(), if s.r { " r" } else { " -" }, if s.w { "w" } else { "-" }, if s.x { "x" } else { "-" }, hex(&s.bytes))).collect::<Vec<_>>().join(" ");
            ctx.viol(rep, what, json!(null), format!("segments of the constructed image ({kind}) differ from the model: got {} expected {}", show(&got), show(&exp)));
            // the model does not describe this image: sweeping it would only repeat the same defect under many signatures
            return;
        }
    }

    // ---- query sweep
    let flat = Flat::new(model);
    let mut addrs: Vec<u64> = Vec::new();
    for s in &model.segs {
        let lo = s.base.saturating_sub(2);
        let hi = s.end() + 2;
        let mut a = lo;
        while a <= hi {
            addrs.push(a);
            a += 1;
        }
    }
    addrs.sort_unstable();
    addrs.dedup();
    let max_addr = addrs.last().copied().unwrap_or(0);
    let mut widths: Vec<u32> = vec![8];
    if max_addr < (1u64 << 32) - 64 {
        widths.push(4);
    }
    if max_addr < (1u64 << 16) - 64 {
        widths.push(2);
    }
    let img_fp = hash_bytes(serde_json::to_string(&case.model).unwrap_or_default().as_bytes());
    let read_sizes: &[u64] = if case.extra_sizes { &[1, 2, 3, 4, 8, 16] } else { &[1, 2, 4, 8] };
    let desc = seg_desc(model);

    for (ai, &a) in addrs.iter().enumerate() {
        let in_seg = flat.seg_of(a);
        let at_end = model.segs.iter().any(|s| !s.bytes.is_empty() && s.end() == a);
        if in_seg.is_some() || at_end {
            rep.nontrivial(mix(img_fp, a));
        }
        // rotate address widths so that every width is used on every image without multiplying the cost
        let width = widths[ai % widths.len()];
        let abv = addr_bv(a, width);

        // -- read
        for &n in read_sizes {
            rep.eval();
            let exp_seg = flat.range_in_one(a, n);
            let q = || json!({"fn":"read","address":format!("{a:#x}"),"address_bytes":width,"size":n});
            let got = guard(|| img.read(&abv, bs(n as u32)).map_err(|e| e.to_string()));
            let class;
            match (&got, exp_seg) {
                (Err(p), _) => {
                    class = "panic";
                    ctx.viol(rep, &format!("read:panic:{}", panic_site(p)), q(), format!("read({a:#x},{n}) panicked: {p}; image {desc}"));
                }
                (Ok(Ok(Some(bv))), Some(s)) if !model.segs[s].w => {
                    class = "bytes";
                    let mut v: u128 = 0;
                    for k in 0..n {
                        let b = flat.byte(a + k).unwrap_or(0) as u128;
                        if model.le {
                            v |= b << (8 * k);
                        } else {
                            v = (v << 8) | b;
                        }
                    }
                    let g = from_bv_checked(bv);
                    if g != Some((v, n as u32)) {
                        let what = if g.map(|x| x.1) != Some(n as u32) {
                            "read:wrong-width"
                        } else if n > 1 && g.map(|x| x.0) == Some(swap_bytes(v, n)) && swap_bytes(v, n) != v {
                            "read:byte-order-reversed"
                        } else {
                            "read:wrong-bytes"
                        };
                        ctx.viol(rep, what, q(), format!("read({a:#x},{n}) = {bv:?} but the image ({}) stores {v:#x} ({n} bytes) there; image {desc}", if model.le { "little endian" } else { "big endian" }));
                    }
                }
                (Ok(Ok(Some(bv))), Some(_)) => {
                    class = "bytes-for-writable";
                    ctx.viol(rep, "read:bytes-from-writable-segment", q(), format!("read({a:#x},{n}) = {bv:?} although the range lies in a writable segment (must be 'unknown content'); image {desc}"));
                }
                (Ok(Ok(Some(bv))), None) => {
                    class = "bytes-for-invalid";
                    ctx.viol(rep, "read:value-for-range-not-in-one-segment", q(), format!("read({a:#x},{n}) = {bv:?} although the range does not lie in one segment (must fail); image {desc}"));
                }
                (Ok(Ok(None)), Some(s)) if model.segs[s].w => class = "unknown",
                (Ok(Ok(None)), Some(_)) => {
                    class = "unknown-for-ro";
                    ctx.viol(rep, "read:unknown-for-read-only-segment", q(), format!("read({a:#x},{n}) = 'unknown content' although the range lies in a read-only segment; image {desc}"));
                }
                (Ok(Ok(None)), None) => {
                    class = "unknown-for-invalid";
                    ctx.viol(rep, "read:unknown-for-range-not-in-one-segment", q(), format!("read({a:#x},{n}) = 'unknown content' although the range does not lie in one segment (must fail); image {desc}"));
                }
                (Ok(Err(e)), Some(s)) => {
                    class = "fail-for-valid";
                    let pos = if a + n == model.segs[s].end() { "at-segment-end" } else if a == model.segs[s].base { "at-segment-start" } else { "inside" };
                    ctx.viol(rep, &format!("read:fails-for-range-in-one-segment:{pos}"), q(), format!("read({a:#x},{n}) failed ({e}) although the whole range lies in segment {s}; image {desc}"));
                }
                (Ok(Err(_)), None) => {
                    class = if in_seg.is_none() {
                        "fail:outside"
                    } else if flat.seg_of(a + n - 1).is_some() && (1..n).all(|k| flat.seg_of(a + k).is_some()) {
                        "fail:spans-adjacent-segments"
                    } else {
                        "fail:crosses-segment-end"
                    };
                }
            }
            if n == 4 {
                rep.obs(&format!("read:{class}"));
            }
        }

        // -- is_global_memory_address
        rep.eval();
        {
            let q = || json!({"fn":"is_global_memory_address","address":format!("{a:#x}"),"address_bytes":width});
            match guard(|| img.is_global_memory_address(&abv)) {
                Err(p) => ctx.viol(rep, &format!("is_global:panic:{}", panic_site(&p)), q(), format!("is_global_memory_address({a:#x}) panicked: {p}")),
                Ok(got) => match (got, in_seg) {
                    (true, None) => ctx.viol(rep, "is_global:true-for-address-outside-all-segments", q(), format!("is_global_memory_address({a:#x}:{width}) = true but no segment contains the address; image {desc}")),
                    (false, Some(s)) => {
                        let what = if flat.range_in_one(a, width as u64).is_some() { "is_global:false-for-address-inside-segment" } else { "is_global:false-for-address-in-last-bytes-of-segment" };
                        ctx.viol(rep, what, q(), format!("is_global_memory_address({a:#x}:{width}) = false but segment {s} [{:#x},{:#x}) contains the address (is_address_writeable answers {:?} for the same address); image {desc}", model.segs[s].base, model.segs[s].end(), img.is_address_writeable(&abv).ok()));
                    }
                    _ => (),
                },
            }
        }

        // -- is_address_writeable
        rep.eval();
        {
            let q = || json!({"fn":"is_address_writeable","address":format!("{a:#x}"),"address_bytes":width});
            match (guard(|| img.is_address_writeable(&abv).map_err(|e| e.to_string())), in_seg) {
                (Err(p), _) => ctx.viol(rep, &format!("is_address_writeable:panic:{}", panic_site(&p)), q(), format!("is_address_writeable({a:#x}) panicked: {p}")),
                (Ok(Ok(f)), Some(s)) => {
                    if f != model.segs[s].w {
                        ctx.viol(rep, "is_address_writeable:wrong-flag", q(), format!("is_address_writeable({a:#x}) = {f} but the containing segment {s} has write flag {}; image {desc}", model.segs[s].w));
                    }
                }
                (Ok(Ok(f)), None) => ctx.viol(rep, "is_address_writeable:answer-for-address-outside", q(), format!("is_address_writeable({a:#x}) = Ok({f}) but no segment contains the address; image {desc}")),
                (Ok(Err(e)), Some(s)) => ctx.viol(rep, "is_address_writeable:fails-inside-segment", q(), format!("is_address_writeable({a:#x}) failed ({e}) but segment {s} contains the address; image {desc}")),
                (Ok(Err(_)), None) => (),
            }
        }

        // -- get_ro_data_pointer_at_address
        rep.eval();
        {
            let q = || json!({"fn":"get_ro_data_pointer_at_address","address":format!("{a:#x}"),"address_bytes":width});
            let got = guard(|| img.get_ro_data_pointer_at_address(&abv).map(|(sl, i)| (sl.to_vec(), i)).map_err(|e| e.to_string()));
            match (got, in_seg) {
                (Err(p), _) => ctx.viol(rep, &format!("ro_pointer:panic:{}", panic_site(&p)), q(), format!("get_ro_data_pointer_at_address({a:#x}) panicked: {p}")),
                (Ok(Ok((sl, i))), Some(s)) if !model.segs[s].w => {
                    let seg = &model.segs[s];
                    if sl != seg.bytes || i as u64 != a - seg.base {
                        ctx.viol(rep, "ro_pointer:wrong-target", q(), format!("get_ro_data_pointer_at_address({a:#x}) = (slice of {} bytes, index {i}); expected the {} bytes of segment {s} and index {}; image {desc}", sl.len(), seg.bytes.len(), a - seg.base));
                    }
                }
                (Ok(Ok((_, i))), Some(s)) => ctx.viol(rep, "ro_pointer:pointer-into-writable-segment", q(), format!("get_ro_data_pointer_at_address({a:#x}) = Ok(index {i}) but the containing segment {s} is writable; image {desc}")),
                (Ok(Ok((_, i))), None) => ctx.viol(rep, "ro_pointer:pointer-for-address-outside", q(), format!("get_ro_data_pointer_at_address({a:#x}) = Ok(index {i}) but no segment contains the address; image {desc}")),
                (Ok(Err(e)), Some(s)) if !model.segs[s].w => ctx.viol(rep, "ro_pointer:fails-inside-read-only-segment", q(), format!("get_ro_data_pointer_at_address({a:#x}) failed ({e}) but the read-only segment {s} contains the address; image {desc}")),
                (Ok(Err(_)), _) => (),
            }
        }

        // -- read_string_until_null_terminator
        rep.eval();
        {
            let q = || json!({"fn":"read_string_until_null_terminator","address":format!("{a:#x}"),"address_bytes":width});
            // stored bytes from a up to (excluding) the first NUL inside the containing segment
            let stored_in_seg: Option<Vec<u8>> = in_seg.and_then(|s| {
                let seg = &model.segs[s];
                let tail = &seg.bytes[(a - seg.base) as usize..];
                tail.iter().position(|b| *b == 0).map(|p| tail[..p].to_vec())
            });
            let got = guard(|| img.read_string_until_null_terminator(&abv).map(|s| s.to_string()).map_err(|e| e.to_string()));
            let class;
            match got {
                Err(p) => {
                    class = "panic";
                    ctx.viol(rep, &format!("string:panic:{}", panic_site(&p)), q(), format!("read_string_until_null_terminator({a:#x}) panicked: {p}; image {desc}"));
                }
                Ok(Ok(s)) => {
                    // any returned string must be what the image stores from `a` to the next NUL
                    let sb = s.as_bytes();
                    let content_ok = (0..sb.len()).all(|k| flat.byte(a + k as u64) == Some(sb[k]) && sb[k] != 0) && flat.byte(a + sb.len() as u64) == Some(0);
                    if !content_ok {
                        class = "wrong";
                        let what = if in_seg.is_none() { "string:string-for-address-outside" } else { "string:wrong-content" };
                        ctx.viol(rep, what, q(), format!("read_string_until_null_terminator({a:#x}) = {s:?} but the image stores {:?} there; image {desc}", stored_in_seg.as_ref().map(|b| String::from_utf8_lossy(b).to_string())));
                    } else {
                        class = if s.is_empty() { "ok-empty" } else { "ok" };
                    }
                }
                Ok(Err(e)) => {
                    let ro = in_seg.map(|s| !model.segs[s].w).unwrap_or(false);
                    match (&stored_in_seg, ro) {
                        (Some(b), true) if std::str::from_utf8(b).is_ok() => {
                            class = "fail-for-valid";
                            let s = in_seg.unwrap_or(0);
                            let follows = model.segs.iter().any(|o| !o.bytes.is_empty() && o.end() == a);
                            let pos = if a == model.segs[s].base && follows { "at-start-of-adjacent-segment" } else if a == model.segs[s].base { "at-segment-start" } else { "inside" };
                            ctx.viol(rep, &format!("string:fails-in-read-only-segment:{pos}"), q(), format!("read_string_until_null_terminator({a:#x}) failed ({e}) but the read-only segment {s} stores the NUL-terminated string {:?} there; image {desc}", String::from_utf8_lossy(b)));
                        }
                        (Some(_), true) => class = "fail:non-utf8",
                        (Some(_), false) => class = "fail:writable",
                        (None, _) if in_seg.is_some() => class = "fail:no-nul-until-segment-end",
                        _ => class = "fail:outside",
                    }
                }
            }
            rep.obs(&format!("string:{class}"));
            if class.starts_with("ok") && in_seg.map(|s| a == model.segs[s].base).unwrap_or(false) && model.segs.iter().any(|o| !o.bytes.is_empty() && o.end() == a) {
                rep.obs("string:ok-at-first-byte-of-adjacent-segment");
            }
        }

        // -- intervals
        for n in [0u64, 1, 2, 4, 8] {
            let end = a + n;
            for which in ["readable", "writeable"] {
                rep.eval();
                let q = || json!({"fn":format!("is_interval_{which}"),"start":format!("{a:#x}"),"end":format!("{end:#x}")});
                let got = guard(|| if which == "readable" { img.is_interval_readable(a, end) } else { img.is_interval_writeable(a, end) }.map_err(|e| e.to_string()));
                let flag_of = |s: usize| if which == "readable" { model.segs[s].r } else { model.segs[s].w };
                match (got, in_seg) {
                    (Err(p), _) => ctx.viol(rep, &format!("interval:panic:{}", panic_site(&p)), q(), format!("is_interval_{which}({a:#x},{end:#x}) panicked: {p}")),
                    (Ok(Ok(f)), Some(s)) => {
                        if n > 0 && end > model.segs[s].end() {
                            ctx.viol(rep, &format!("interval:{which}:answer-for-interval-leaving-segment"), q(), format!("is_interval_{which}({a:#x},{end:#x}) = Ok({f}) but the interval leaves segment {s} [{:#x},{:#x}); image {desc}", model.segs[s].base, model.segs[s].end()));
                        } else if f != flag_of(s) {
                            ctx.viol(rep, &format!("interval:{which}:wrong-flag"), q(), format!("is_interval_{which}({a:#x},{end:#x}) = {f} but segment {s} has that flag = {}; image {desc}", flag_of(s)));
                        }
                    }
                    (Ok(Ok(f)), None) => ctx.viol(rep, &format!("interval:{which}:answer-for-start-outside"), q(), format!("is_interval_{which}({a:#x},{end:#x}) = Ok({f}) but the start address lies in no segment; image {desc}")),
                    (Ok(Err(e)), Some(s)) => {
                        if n > 0 && end <= model.segs[s].end() {
                            let pos = if end == model.segs[s].end() { "ending-at-segment-end" } else { "inside" };
                            ctx.viol(rep, &format!("interval:{which}:fails-inside-segment:{pos}"), q(), format!("is_interval_{which}({a:#x},{end:#x}) failed ({e}) but the interval lies in segment {s} [{:#x},{:#x}); image {desc}", model.segs[s].base, model.segs[s].end()));
                        }
                    }
                    (Ok(Err(_)), None) => (),
                }
            }
        }
    }

    // layout statistics
    let mut sorted: Vec<&Seg> = model.segs.iter().filter(|s| !s.bytes.is_empty()).collect();
    sorted.sort_by_key(|s| s.base);
    for w in sorted.windows(2) {
        rep.obs(if w[0].end() == w[1].base { "layout:adjacent-pair" } else { "layout:gapped-pair" });
    }
    rep.obs(&format!("layout:segments={}", model.segs.len().min(9)));
    rep.obs(if model.le { "byte-order:LE" } else { "byte-order:BE" });
    for s in &model.segs {
        rep.obs(&format!("flags:{}{}{}", if s.r { "r" } else { "-" }, if s.w { "w" } else { "-" }, if s.x { "x" } else { "-" }));
        if s.bytes.is_empty() {
            rep.obs("layout:empty-segment");
        }
    }
}

fn from_bv_checked(bv: &Bitvector) -> Option<(u128, u32)> {
    use apint::Width;
    let bits = bv.width().to_usize();
    if bits % 8 != 0 || bits > 128 {
        return None;
    }
    let v = from_bv(bv);
    Some((v.v, v.w))
}

fn swap_bytes(v: u128, n: u64) -> u128 {
    let mut out = 0u128;
    for k in 0..n {
        out |= ((v >> (8 * k)) & 0xff) << (8 * (n - 1 - k));
    }
    out
}

fn unhex_len(src: &Source) -> usize {
    match src {
        Source::BareMetal { binary_hex, .. } => binary_hex.len() / 2,
        Source::Elf { file_hex, .. } => file_hex.len() / 2,
        _ => 0,
    }
}

fn bare_metal_class(config: &BareMetalConfig, len: usize) -> String {
    let bits = config.processor_id.split(':').nth(2).and_then(|b| b.parse::<u32>().ok()).unwrap_or(0);
    let base = u64::from_str_radix(config.flash_base_address.trim_start_matches("0x"), 16).unwrap_or(0);
    if bits >= 64 {
        "64-bit-address-space".into()
    } else if (base + len as u64) == (1u64 << bits) {
        format!("binary-ends-at-top-of-{bits}-bit-address-space")
    } else {
        format!("other-{bits}-bit")
    }
}

// ---------------------------------------------------------------------------
// Generators

fn gen_bytes(rng: &mut Rng, len: usize) -> Vec<u8> {
    let mode = rng.below(8);
    let mut v = Vec::with_capacity(len);
    for i in 0..len {
        let b = match mode {
            0 => rng.below(256) as u8,                                         // anything
            1 => 1 + rng.below(255) as u8,                                     // no NUL at all
            2 => if rng.chance(1, 4) { 0 } else { 0x20 + rng.below(95) as u8 }, // ASCII strings
            3 => 0x41 + rng.below(26) as u8,                                   // ASCII without NUL
            4 => 0,                                                            // all zero
            5 => if i + 1 == len { 0 } else { 0x61 + rng.below(26) as u8 },     // NUL only at the very end
            6 => if rng.chance(1, 5) { 0 } else if rng.chance(1, 6) { 0x80 + rng.below(128) as u8 } else { 0x30 + rng.below(75) as u8 }, // some non-UTF-8
            _ => if i == 0 { 0 } else { rng.below(256) as u8 },                 // NUL first
        };
        v.push(b);
    }
    if mode == 2 && len >= 3 && rng.chance(1, 3) {
        // a valid multi-byte UTF-8 character
        let at = rng.usize_below(len - 2);
        v[at] = 0xc3;
        v[at + 1] = 0xa9;
    }
    v
}

fn gen_len(rng: &mut Rng) -> usize {
    match rng.below(10) {
        0 => 0,
        1 => 1,
        2 => *rng.pick(&[2usize, 3, 4]),
        3 => *rng.pick(&[7usize, 8, 9]),
        4 => *rng.pick(&[15usize, 16, 17, 31, 32]),
        _ => rng.range_usize(0, 32),
    }
}

/// 1..=5 disjoint segments (sorted by address) starting near `start`.
fn gen_layout(rng: &mut Rng, start: u64, max_segs: usize) -> Vec<Seg> {
    let n = rng.range_usize(1, max_segs);
    let mut cursor = start;
    let mut segs = Vec::new();
    for i in 0..n {
        if i > 0 || rng.bool() {
            cursor += match rng.below(8) {
                0..=3 => 0, // adjacent
                4 => 1,
                5 => 2,
                6 => 3 + rng.below(6),
                _ => 16 + rng.below(4096),
            };
        }
        let len = gen_len(rng);
        let flags = rng.below(8);
        segs.push(Seg { base: cursor, bytes: gen_bytes(rng, len), r: flags & 4 != 0, w: flags & 2 != 0, x: flags & 1 != 0 });
        cursor += len as u64;
    }
    segs
}

fn gen_start(rng: &mut Rng) -> u64 {
    match rng.below(10) {
        0 => 0,
        1 => rng.below(4),
        2 => 0x1000,
        3 => 0xffff - rng.below(64),                 // around the 16-bit boundary
        4 => 0xffff_ffff - rng.below(96),            // around the 32-bit boundary
        5 => 0x7fff_ffff_ffff_ff00 + rng.below(256), // around the sign boundary
        6 => u64::MAX - 512 - rng.below(256),        // high, ends stay below u64::MAX - 32
        7 => 0x0804_8000 + rng.below(16),
        8 => 0x40_0000 + rng.below(0x1000),
        _ => rng.next_u64() >> rng.below(40),
    }
}

fn gen_direct(rng: &mut Rng) -> Case {
    let mut start = gen_start(rng);
    if start > u64::MAX - 8192 * 6 {
        start = u64::MAX - 8192 * 6;
    }
    // gaps of up to 4111 per segment: keep far from the top unless the layout is compact
    let mut segs = gen_layout(rng, start, 5);
    if rng.chance(1, 6) {
        // an extra empty segment exactly at the base of another one / between adjacent ones / inside one
        let host = rng.pick(&segs).clone();
        let at = host.base + rng.below(host.bytes.len() as u64 + 1);
        let flags = rng.below(8);
        let pos = rng.usize_below(segs.len() + 1);
        segs.insert(pos, Seg { base: at, bytes: vec![], r: flags & 4 != 0, w: flags & 2 != 0, x: flags & 1 != 0 });
    }
    if rng.chance(2, 5) {
        rng.shuffle(&mut segs);
    }
    let le = rng.bool();
    let max_end = segs.iter().map(|s| s.end()).max().unwrap_or(0);
    let offset = if rng.chance(1, 4) {
        let room = (u64::MAX - 64).saturating_sub(max_end);
        let o = match rng.below(4) {
            0 => 1,
            1 => 0x10_0000,
            2 => 0x10000 - rng.below(64),
            _ => rng.next_u64() >> rng.below(48),
        };
        o.min(room)
    } else {
        0
    };
    let model = Model { segs: segs.iter().map(|s| Seg { base: s.base + offset, ..s.clone() }).collect(), le };
    Case { source: Source::Direct { segs, le, is_lkm: rng.chance(1, 8), offset }, model, extra_sizes: rng.chance(1, 4) }
}

// ----- ELF writers

struct W {
    b: Vec<u8>,
    le: bool,
    is64: bool,
}

impl W {
    fn u16(&mut self, v: u16) {
        if self.le { self.b.extend_from_slice(&v.to_le_bytes()) } else { self.b.extend_from_slice(&v.to_be_bytes()) }
    }
    fn u32(&mut self, v: u32) {
        if self.le { self.b.extend_from_slice(&v.to_le_bytes()) } else { self.b.extend_from_slice(&v.to_be_bytes()) }
    }
    fn u64(&mut self, v: u64) {
        if self.le { self.b.extend_from_slice(&v.to_le_bytes()) } else { self.b.extend_from_slice(&v.to_be_bytes()) }
    }
    /// address-sized field
    fn word(&mut self, v: u64) {
        if self.is64 { self.u64(v) } else { self.u32(v as u32) }
    }
    fn header(&mut self, e_type: u16, machine: u16, phoff: u64, phnum: u16, shoff: u64, shnum: u16, shstrndx: u16) {
        self.b.extend_from_slice(&[0x7f, b'E', b'L', b'F', if self.is64 { 2 } else { 1 }, if self.le { 1 } else { 2 }, 1, 0, 0, 0, 0, 0, 0, 0, 0, 0]);
        self.u16(e_type);
        self.u16(machine);
        self.u32(1);
        self.word(0); // entry
        self.word(phoff);
        self.word(shoff);
        self.u32(0);
        self.u16(if self.is64 { 64 } else { 52 });
        self.u16(if self.is64 { 56 } else { 32 });
        self.u16(phnum);
        self.u16(if self.is64 { 64 } else { 40 });
        self.u16(shnum);
        self.u16(shstrndx);
    }
    fn phdr(&mut self, p_type: u32, flags: u32, offset: u64, vaddr: u64, filesz: u64, memsz: u64, align: u64) {
        if self.is64 {
            self.u32(p_type);
            self.u32(flags);
            self.u64(offset);
            self.u64(vaddr);
            self.u64(vaddr);
            self.u64(filesz);
            self.u64(memsz);
            self.u64(align);
        } else {
            self.u32(p_type);
            self.u32(offset as u32);
            self.u32(vaddr as u32);
            self.u32(vaddr as u32);
            self.u32(filesz as u32);
            self.u32(memsz as u32);
            self.u32(flags);
            self.u32(align as u32);
        }
    }
    #[allow(clippy::too_many_arguments)]
    fn shdr(&mut self, name: u32, sh_type: u32, flags: u64, addr: u64, offset: u64, size: u64, align: u64, entsize: u64) {
        self.u32(name);
        self.u32(sh_type);
        self.word(flags);
        self.word(addr);
        self.word(offset);
        self.word(size);
        self.u32(0);
        self.u32(0);
        self.word(align);
        self.word(entsize);
    }
}

const PT_LOAD: u32 = 1;

/// ET_EXEC / ET_DYN with PT_LOAD program headers (plus ignorable other headers).
fn gen_elf_exec(rng: &mut Rng) -> Case {
    let is64 = rng.bool();
    let le = rng.bool();
    let dynamic = rng.chance(1, 3);
    let start = if is64 {
        *rng.pick(&[0u64, 0x40_0000, 0x1_0000_0000 - 40, 0x5555_5555_4000, 0xffff_ffff_8000_0000, 0x1000])
    } else {
        *rng.pick(&[0u64, 0x0804_8000, 0x1_0000, 0xffff_0000, 0x1000])
    } + rng.below(8);
    let layout = loop {
        let l = gen_layout(rng, start, 4);
        // ELF32 files can only describe 32-bit addresses
        if is64 || l.iter().all(|s| s.end() + 64 < (1u64 << 32)) {
            break l;
        }
    };
    // headers: loads (in address order or shuffled) mixed with other types
    #[derive(Clone)]
    struct Ph {
        p_type: u32,
        seg: Option<usize>,
    }
    let mut phs: Vec<Ph> = (0..layout.len()).map(|i| Ph { p_type: PT_LOAD, seg: Some(i) }).collect();
    if rng.chance(1, 4) {
        rng.shuffle(&mut phs);
    }
    for _ in 0..rng.below(3) {
        let t = *rng.pick(&[0u32, 4, 6, 7, 0x6474_e551, 0x6474_e552, 0x6474_e550]);
        let pos = rng.usize_below(phs.len() + 1);
        phs.insert(pos, Ph { p_type: t, seg: None });
    }
    let ehsize = if is64 { 64 } else { 52 };
    let phentsize = if is64 { 56 } else { 32 };
    let data_start = ehsize + phentsize * phs.len();
    // file payload: for each load segment choose filesz <= memsz
    let mut payload: Vec<u8> = Vec::new();
    let mut place: Vec<(u64, u64, u64)> = Vec::new(); // (offset, filesz, memsz) per layout segment
    for (i, s) in layout.iter().enumerate() {
        let memsz = s.bytes.len() as u64;
        let filesz = match rng.below(4) {
            0 => rng.below(memsz + 1), // partly zero-filled (.bss style)
            1 => 0.min(memsz),
            _ => memsz,
        };
        if i == 0 && rng.chance(1, 4) && filesz > 0 {
            // first segment maps the start of the file (ELF header), as in real binaries
            place.push((0, filesz.min(data_start as u64), memsz));
            continue;
        }
        if rng.chance(1, 3) {
            payload.extend(std::iter::repeat(0xEE).take(rng.usize_below(5)));
        }
        let off = (data_start + payload.len()) as u64;
        payload.extend_from_slice(&s.bytes[..filesz as usize]);
        place.push((off, filesz, memsz));
    }
    payload.extend(std::iter::repeat(0xDD).take(rng.usize_below(4)));
    let mut w = W { b: Vec::new(), le, is64 };
    w.header(if dynamic { 3 } else { 2 }, if is64 { 62 } else { 40 }, ehsize as u64, phs.len() as u16, 0, 0, 0);
    for ph in &phs {
        match ph.seg {
            Some(i) => {
                let s = &layout[i];
                let flags = (s.r as u32) << 2 | (s.w as u32) << 1 | s.x as u32;
                w.phdr(PT_LOAD, flags, place[i].0, s.base, place[i].1, place[i].2, *rng.pick(&[0u64, 1, 0x1000]));
            }
            None => {
                // ignorable header pointing somewhere valid inside the file
                w.phdr(ph.p_type, rng.below(8) as u32, ehsize as u64, start, rng.below(8), rng.below(64), 4);
            }
        }
    }
    w.b.extend_from_slice(&payload);
    let file = w.b;
    // model from the ELF specification of PT_LOAD
    let segs: Vec<Seg> = phs
        .iter()
        .filter_map(|ph| ph.seg)
        .map(|i| {
            let (off, filesz, memsz) = place[i];
            let mut bytes = file[off as usize..(off + filesz) as usize].to_vec();
            bytes.resize(memsz as usize, 0);
            Seg { base: layout[i].base, bytes, r: layout[i].r, w: layout[i].w, x: layout[i].x }
        })
        .collect();
    let what = format!("elf-{}{}{}", if dynamic { "dyn" } else { "exec" }, if is64 { "64" } else { "32" }, if le { "le" } else { "be" });
    Case { source: Source::Elf { file_hex: hex(&file), what, offset: 0, expect_lkm: false }, model: Model { segs, le }, extra_sizes: rng.chance(1, 4) }
}

const SHT_PROGBITS: u32 = 1;
const SHT_STRTAB: u32 = 3;
const SHT_NOTE: u32 = 7;
const SHT_NOBITS: u32 = 8;
const SHF_WRITE: u64 = 1;
const SHF_ALLOC: u64 = 2;
const SHF_EXEC: u64 = 4;

/// ET_REL (kernel-module style) with section headers.
fn gen_elf_rel(rng: &mut Rng) -> Case {
    let is64 = rng.chance(3, 4);
    let le = rng.chance(3, 4);
    struct Sec {
        name: &'static str,
        sh_type: u32,
        flags: u64,
        size: usize,
        align: u64,
        data: Vec<u8>,
    }
    let pool: &[(&'static str, u32, u64)] = &[
        (".text", SHT_PROGBITS, SHF_ALLOC | SHF_EXEC),
        (".init.text", SHT_PROGBITS, SHF_ALLOC | SHF_EXEC),
        (".rodata", SHT_PROGBITS, SHF_ALLOC),
        (".rodata.str1.1", SHT_PROGBITS, SHF_ALLOC | 0x30),
        (".rodata.str1.8", SHT_PROGBITS, SHF_ALLOC | 0x30),
        ("__param", SHT_PROGBITS, SHF_ALLOC),
        (".data", SHT_PROGBITS, SHF_ALLOC | SHF_WRITE),
        (".bss", SHT_NOBITS, SHF_ALLOC | SHF_WRITE),
        (".note.gnu.build-id", SHT_NOTE, SHF_ALLOC),
        (".comment", SHT_PROGBITS, 0x30),
        (".note.GNU-stack", SHT_PROGBITS, 0),
        (".debug_info", SHT_PROGBITS, 0),
        (".weird.wx", SHT_PROGBITS, SHF_ALLOC | SHF_WRITE | SHF_EXEC),
        (".null.alloc", 0, SHF_ALLOC),
        (".data..read_mostly", SHT_PROGBITS, SHF_ALLOC | SHF_WRITE),
        (".unalloc.w", SHT_PROGBITS, SHF_WRITE),
    ];
    let mut names: Vec<(&'static str, u32, u64)> = Vec::new();
    for p in pool {
        if rng.chance(1, 2) {
            names.push(*p);
        }
    }
    let has_modinfo = rng.chance(3, 5);
    let has_this_module = rng.chance(3, 5);
    if has_modinfo {
        names.push((".modinfo", SHT_PROGBITS, if rng.chance(1, 6) { 0 } else { SHF_ALLOC }));
    }
    if has_this_module {
        names.push((".gnu.linkonce.this_module", SHT_PROGBITS, SHF_ALLOC | SHF_WRITE));
    }
    if rng.chance(1, 2) {
        rng.shuffle(&mut names);
    }
    let mut secs: Vec<Sec> = Vec::new();
    for (name, sh_type, flags) in names {
        let size = gen_len(rng);
        let mut align = *rng.pick(&[0u64, 1, 1, 2, 4, 8, 16, 32, 64]);
        if size == 0 && flags & SHF_ALLOC != 0 {
            align = align.min(1);
        }
        let data = if sh_type == SHT_NOBITS { vec![] } else if name == ".modinfo" {
            let mut d = b"license=GPL\0author=x\0".to_vec();
            d.resize(size, b'v');
            d
        } else {
            gen_bytes(rng, size)
        };
        secs.push(Sec { name, sh_type, flags, size, align, data });
    }
    // string table
    let mut shstr: Vec<u8> = vec![0];
    let mut name_off: Vec<u32> = Vec::new();
    for s in &secs {
        name_off.push(shstr.len() as u32);
        shstr.extend_from_slice(s.name.as_bytes());
        shstr.push(0);
    }
    let shstr_name = shstr.len() as u32;
    shstr.extend_from_slice(b".shstrtab\0");
    // file layout: header, section data, shstrtab, section header table
    let ehsize = if is64 { 64 } else { 52 };
    let mut body: Vec<u8> = Vec::new();
    let mut offs: Vec<u64> = Vec::new();
    for s in &secs {
        if rng.chance(1, 3) {
            body.extend(std::iter::repeat(0xEE).take(rng.usize_below(4)));
        }
        offs.push((ehsize + body.len()) as u64);
        body.extend_from_slice(&s.data);
    }
    let shstr_off = (ehsize + body.len()) as u64;
    body.extend_from_slice(&shstr);
    while (ehsize + body.len()) % 8 != 0 {
        body.push(0);
    }
    let shoff = (ehsize + body.len()) as u64;
    let shnum = secs.len() + 2;
    let mut w = W { b: Vec::new(), le, is64 };
    w.header(1, if is64 { 62 } else { 40 }, 0, 0, shoff, shnum as u16, (shnum - 1) as u16);
    w.b.extend_from_slice(&body);
    w.shdr(0, 0, 0, 0, 0, 0, 0, 0);
    for (i, s) in secs.iter().enumerate() {
        w.shdr(name_off[i], s.sh_type, s.flags, 0, offs[i], s.size as u64, s.align, 0);
    }
    w.shdr(shstr_name, SHT_STRTAB, 0, 0, shstr_off, shstr.len() as u64, 1, 0);
    let file = w.b;
    // model: Ghidra-style concatenation of the loaded sections
    let mut next = 0u64;
    let mut segs = Vec::new();
    for s in &secs {
        if s.flags & SHF_ALLOC == 0 || s.sh_type == 0 || s.size == 0 {
            continue;
        }
        let al = s.align.max(1);
        let base = next.div_ceil(al) * al;
        let bytes = if s.sh_type == SHT_NOBITS { vec![0u8; s.size] } else { s.data.clone() };
        segs.push(Seg { base, bytes, r: true, w: s.flags & SHF_WRITE != 0, x: s.flags & SHF_EXEC != 0 });
        next = base + s.size as u64;
    }
    let offset = match rng.below(4) {
        0 => 0,
        1 => 0x10_0000,
        2 => 0xffff_ffff_c000_0000,
        _ => rng.below(0x1_0000_0000),
    };
    for s in segs.iter_mut() {
        s.base += offset;
    }
    let what = format!("elf-rel{}{}", if is64 { "64" } else { "32" }, if le { "le" } else { "be" });
    Case {
        source: Source::Elf { file_hex: hex(&file), what, offset, expect_lkm: has_modinfo && has_this_module },
        model: Model { segs, le },
        extra_sizes: rng.chance(1, 4),
    }
}

fn gen_bare_metal(rng: &mut Rng) -> Case {
    let bits: u32 = *rng.pick(&[16u32, 24, 32, 32, 32, 64]);
    let le = rng.bool();
    let len = gen_len(rng) as u64;
    let ram_size = gen_len(rng) as u64;
    let top: u128 = 1u128 << bits;
    // place flash and ram disjoint (adjacent or gapped, either order) below the top of the address space
    let limit: u64 = if bits == 64 { u64::MAX - 64 } else { top as u64 };
    let total = len + ram_size + 40;
    let lowest = match rng.below(5) {
        0 => 0,
        1 => limit - total, // near the top
        2 => 0x0800_0000u64.min(limit - total),
        3 => 0x2000_0000u64.min(limit - total),
        _ => rng.below(limit - total + 1),
    };
    let gap = *rng.pick(&[0u64, 0, 1, 2, 7, 32]);
    let (mut flash_base, mut ram_base) = if rng.bool() { (lowest, lowest + len + gap) } else { (lowest + ram_size + gap, lowest) };
    if bits < 64 && rng.chance(1, 10) {
        // the binary ends exactly at the top of the address space (e.g. a 16-bit MCU whose flash ends at 0xFFFF)
        flash_base = limit - len;
        ram_base = lowest.min(flash_base.saturating_sub(ram_size + gap));
    }
    let fmt_hex = |rng: &mut Rng, v: u64| match rng.below(4) {
        0 => format!("{v:x}"),
        1 => format!("0x{v:X}"),
        2 => format!("0x{v:08x}"),
        _ => format!("0x{v:x}"),
    };
    let binary = gen_bytes(rng, len as usize);
    let config = BareMetalConfig {
        processor_id: format!("{}:{}:{}:{}", rng.pick(&["ARM", "MIPS", "TI_MSP430", "AARCH64"]), if le { "LE" } else { "BE" }, bits, rng.pick(&["default", "Cortex", "v8"])),
        flash_base_address: fmt_hex(rng, flash_base),
        ram_base_address: fmt_hex(rng, ram_base),
        ram_size: fmt_hex(rng, ram_size),
    };
    let segs = vec![
        Seg { base: flash_base, bytes: binary.clone(), r: true, w: true, x: true },
        Seg { base: ram_base, bytes: vec![0; ram_size as usize], r: true, w: true, x: false },
    ];
    Case { source: Source::BareMetal { binary_hex: hex(&binary), config }, model: Model { segs, le }, extra_sizes: rng.chance(1, 4) }
}

/// A complete written-out case: the image plus a few concrete queries with expected and observed answers.
fn sample_of(case: &Case) -> Value {
    let model = &case.model;
    let flat = Flat::new(model);
    let mut queries = Vec::new();
    if let Ok(Ok(img)) = build_image(&case.source) {
        if let Some(seg) = model.segs.iter().find(|s| !s.bytes.is_empty()) {
            for a in [seg.base, seg.end() - 1, seg.end()] {
                let abv = addr_bv(a, 8);
                let exp_read = match flat.range_in_one(a, 2) {
                    Some(s) if model.segs[s].w => "Ok(None)".to_string(),
                    Some(_) => format!("bytes {:02x} {:02x} in image byte order", flat.byte(a).unwrap_or(0), flat.byte(a + 1).unwrap_or(0)),
                    None => "Err".to_string(),
                };
                queries.push(json!({
                    "address": format!("{a:#x}"),
                    "read(2) expected": exp_read,
                    "read(2) observed": format!("{:?}", img.read(&abv, bs(2)).map_err(|e| e.to_string())),
                    "containing segment (model)": flat.seg_of(a),
                    "is_address_writeable observed": format!("{:?}", img.is_address_writeable(&abv).map_err(|e| e.to_string())),
                    "string observed": format!("{:?}", img.read_string_until_null_terminator(&abv).map_err(|e| e.to_string())),
                }));
            }
        }
    }
    json!({"source": source_kind(&case.source), "image": seg_desc(model), "segments": model.segs.iter().map(|s| json!({"base": format!("{:#x}", s.base), "bytes": hex(&s.bytes), "flags": format!("{}{}{}", if s.r {"r"} else {"-"}, if s.w {"w"} else {"-"}, if s.x {"x"} else {"-"})})).collect::<Vec<_>>(), "queries": queries})
}

fn model_ok(m: &Model) -> bool {
    // generator self-check: disjoint, ends representable
    let mut v: Vec<&Seg> = m.segs.iter().filter(|s| !s.bytes.is_empty()).collect();
    v.sort_by_key(|s| s.base);
    v.iter().all(|s| s.base.checked_add(s.bytes.len() as u64).map(|e| e <= u64::MAX - 32).unwrap_or(false)) && v.windows(2).all(|w| w[0].end() <= w[1].base)
        && m.segs.iter().all(|s| s.base <= u64::MAX - 64)
}

fn run(cfg: &Cfg) -> Report {
    let shards = cfg.tier.pick(384usize, 1024usize);
    let per_shard = cfg.tier.pick(500u64, 5_000u64);
    let mut rep = par_shards(cfg, "c19", shards, |idx, rng, rep| {
        for k in 0..per_shard {
            let case = match (idx + k as usize) % 8 {
                0..=3 => gen_direct(rng),
                4 | 5 => gen_elf_exec(rng),
                6 => gen_elf_rel(rng),
                _ => gen_bare_metal(rng),
            };
            if !model_ok(&case.model) {
                rep.inconclusive("generator-produced-overlapping-or-unrepresentable-layout");
                continue;
            }
            check_case(&case, rep);
            if k == 0 && idx % 24 == 0 && rep.wants_sample() {
                rep.sample(sample_of(&case));
            }
        }
    });
    // fixed witnesses: two adjacent read-only segments, string at the first byte of the second one
    let w = Case {
        source: Source::Direct {
            segs: vec![
                Seg { base: 0x1000, bytes: b"ab\0".to_vec(), r: true, w: false, x: false },
                Seg { base: 0x1003, bytes: b"cd\0".to_vec(), r: true, w: false, x: false },
            ],
            le: true,
            is_lkm: false,
            offset: 0,
        },
        model: Model {
            segs: vec![
                Seg { base: 0x1000, bytes: b"ab\0".to_vec(), r: true, w: false, x: false },
                Seg { base: 0x1003, bytes: b"cd\0".to_vec(), r: true, w: false, x: false },
            ],
            le: true,
        },
        extra_sizes: true,
    };
    check_case(&w, &mut rep);
    rep.sample(json!({"source":"direct","image": seg_desc(&w.model), "query":"read_string_until_null_terminator(0x1003)", "expected":"Ok(\"cd\")"}));
    rep
}

fn replay(_cfg: &Cfg, case: &Value) -> Report {
    let mut rep = Report::new();
    match serde_json::from_value::<Case>(case.clone()) {
        Ok(c) => check_case(&c, &mut rep),
        Err(e) => rep.note(format!("cannot parse replay case: {e}")),
    }
    rep
}
