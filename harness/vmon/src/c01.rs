//! C01 — constant folding of IR operations agrees with the P-Code reference semantics.
//!
//! Monitor shape: reference model (`pref`) evaluated next to the real
//! `Bitvector::{bin_op,un_op,cast,subpiece}` and `BitvectorDomain::{...}`.

use crate::conv::*;
use crate::core::*;
use crate::pref::{self, V};
use crate::prng::Rng;
use cwe_checker_lib::abstract_domain::{BitvectorDomain, RegisterDomain, SizedDomain};
use cwe_checker_lib::intermediate_representation::*;
use serde_json::{json, Value};

pub fn info() -> CheckInfo {
    CheckInfo {
        id: "C01",
        rule: "every integer BinOp/UnOp/Cast/Subpiece of the IR evaluated by Bitvector::* and BitvectorDomain::* and compared with the independent P-Code reference `pref`; exhaustive over all 1-byte operand pairs (shifts: value x every 1-byte amount), boundary-biased sampling for widths 2/4/8/16 and mixed-width shift/piece; float ops, >8-byte mult/div and division by zero must be 'unknown'. non-trivial = the reference result is a value and at least one operand is not in {0,1}; distinct = hash of (op, widths, operands)",
        assumptions: &[
            "pref (harness/vmon/src/pref.rs) is a correct transcription of the P-Code reference manual",
            "BOOL_* and BoolNegate are only applied to 0/1 (the implementation asserts this input domain); shift amounts are at most 8 bytes wide",
            "verdicts on the release profile",
        ],
        run,
        replay,
    }
}

fn vjson(v: V) -> Value {
    json!([format!("{:#x}", v.v), v.w])
}

fn vparse(j: &Value) -> Option<V> {
    let s = j.get(0)?.as_str()?;
    let w = j.get(1)?.as_u64()? as u32;
    let v = u128::from_str_radix(s.trim_start_matches("0x"), 16).ok()?;
    Some(V::new(v, w))
}

fn size_of(vals: &[V]) -> u64 {
    vals.iter().map(|v| (128 - v.v.leading_zeros()) as u64 + v.w as u64).sum()
}

fn nontrivial(rep: &mut Report, tag: u64, vals: &[V], result_is_value: bool) {
    if result_is_value && vals.iter().any(|v| v.v > 1) {
        let mut h = tag;
        for v in vals {
            h = crate::prng::mix(h, (v.v as u64) ^ ((v.v >> 64) as u64).rotate_left(7) ^ ((v.w as u64) << 56));
        }
        rep.nontrivial(h);
    }
}

/// Check one binary operation on both APIs.
pub fn check_bin(op: BinOpType, a: V, b: V, rep: &mut Report, track: bool) {
    if op == BinOpType::Piece && a.w + b.w > 16 {
        return; // domain guard: pieces wider than 16 bytes cannot be represented by the reference
    }
    rep.eval();
    let expected = pref::bin(op, a, b);
    let exp_w = pref::bin_width(op, a.w, b.w);
    let case = || json!({"kind":"bin","op":op,"a":vjson(a),"b":vjson(b)});
    let sig = |what: &str| format!("bin:{op:?}:w{}x{}:{what}", a.w, b.w);
    let (abv, bbv) = (to_bv(a), to_bv(b));
    // --- Bitvector::bin_op
    let got = guard(|| abv.bin_op(op, &bbv));
    match (&got, expected) {
        (Err(p), _) => rep.violation(
            sig("panic"),
            None,
            format!("Bitvector::bin_op({op:?},{a:?},{b:?}) panicked: {p}; reference says {expected:?}"),
            case(),
            size_of(&[a, b]),
        ),
        (Ok(Ok(bv)), Some(e)) => {
            let g = from_bv(bv);
            if g != e {
                rep.violation(
                    sig("wrong-value"),
                    None,
                    format!("Bitvector::bin_op({op:?},{a:?},{b:?}) = {g:?}, P-Code reference = {e:?}"),
                    case(),
                    size_of(&[a, b]),
                );
            }
        }
        (Ok(Ok(bv)), None) => rep.violation(
            sig("value-for-unsupported"),
            None,
            format!("Bitvector::bin_op({op:?},{a:?},{b:?}) = {:?} but the operation is unsupported/undefined and must be 'unknown'", from_bv(bv)),
            case(),
            size_of(&[a, b]),
        ),
        (Ok(Err(_)), Some(e)) => rep.violation(
            sig("unknown-for-supported"),
            None,
            format!("Bitvector::bin_op({op:?},{a:?},{b:?}) reports an error, P-Code reference = {e:?}"),
            case(),
            size_of(&[a, b]),
        ),
        (Ok(Err(_)), None) => (),
    }
    // --- BitvectorDomain::bin_op (same-size assertion applies for all but piece/shift)
    let same_size_needed = !matches!(op, BinOpType::Piece | BinOpType::IntLeft | BinOpType::IntRight | BinOpType::IntSRight);
    if !same_size_needed || a.w == b.w {
        let (ad, bd) = (BitvectorDomain::Value(abv.clone()), BitvectorDomain::Value(bbv.clone()));
        let got = guard(|| ad.bin_op(op, &bd));
        match (got, expected) {
            (Err(p), _) => rep.violation(sig("domain-panic"), None, format!("BitvectorDomain::bin_op({op:?},{a:?},{b:?}) panicked: {p}"), case(), size_of(&[a, b])),
            (Ok(BitvectorDomain::Value(bv)), Some(e)) => {
                if from_bv(&bv) != e {
                    rep.violation(sig("domain-wrong-value"), None, format!("BitvectorDomain::bin_op({op:?},{a:?},{b:?}) = {:?}, reference = {e:?}", from_bv(&bv)), case(), size_of(&[a, b]));
                }
            }
            (Ok(BitvectorDomain::Value(bv)), None) => rep.violation(sig("domain-value-for-unsupported"), None, format!("BitvectorDomain::bin_op({op:?},{a:?},{b:?}) = {:?}, must be Top", from_bv(&bv)), case(), size_of(&[a, b])),
            (Ok(BitvectorDomain::Top(sz)), Some(e)) => rep.violation(sig("domain-top-for-supported"), None, format!("BitvectorDomain::bin_op({op:?},{a:?},{b:?}) = Top({sz}), reference = {e:?}"), case(), size_of(&[a, b])),
            (Ok(BitvectorDomain::Top(sz)), None) => {
                if let Some(w) = exp_w {
                    if u64::from(sz) != w as u64 {
                        rep.violation(sig("domain-top-width"), None, format!("BitvectorDomain::bin_op({op:?},{a:?},{b:?}) = Top of {sz} bytes, expected width {w}"), case(), size_of(&[a, b]));
                    }
                }
            }
        }
        // Top in => Top of the right width out (sampled: only when tracking)
        if track {
            if let Some(w) = exp_w {
                for (x, y) in [
                    (BitvectorDomain::Top(bs(a.w)), bd.clone()),
                    (ad.clone(), BitvectorDomain::Top(bs(b.w))),
                ] {
                    rep.eval();
                    match guard(|| x.bin_op(op, &y)) {
                        Ok(BitvectorDomain::Top(sz)) if u64::from(sz) == w as u64 => (),
                        other => rep.violation(sig("top-in-not-top-out"), None, format!("BitvectorDomain::bin_op({op:?}) with a Top operand returned {other:?}, expected Top({w})"), case(), size_of(&[a, b])),
                    }
                }
            }
        }
    }
    // --- result width agrees with Expression::bytesize
    if track {
        if let (Some(w), Some(_)) = (exp_w, expected) {
            let e = Expression::BinOp { op, lhs: Box::new(Expression::Const(abv)), rhs: Box::new(Expression::Const(bbv)) };
            if u64::from(e.bytesize()) != w as u64 {
                rep.violation(sig("expr-bytesize"), None, format!("Expression::bytesize of {op:?} on widths {}/{} = {}, reference width {w}", a.w, b.w, e.bytesize()), case(), size_of(&[a, b]));
            }
        }
    }
    if track {
        nontrivial(rep, op as u64 + 1, &[a, b], expected.is_some());
        rep.obs(&format!("bin:{op:?}:w{}x{}", a.w, b.w));
        if expected.is_none() {
            rep.obs("reference-unknown");
        }
    }
}

pub fn check_un(op: UnOpType, a: V, rep: &mut Report) {
    rep.eval();
    let expected = pref::un(op, a);
    let case = || json!({"kind":"un","op":op,"a":vjson(a)});
    let sig = |what: &str| format!("un:{op:?}:w{}:{what}", a.w);
    let abv = to_bv(a);
    match (guard(|| abv.un_op(op)), expected) {
        (Err(p), _) => rep.violation(sig("panic"), None, format!("Bitvector::un_op({op:?},{a:?}) panicked: {p}"), case(), size_of(&[a])),
        (Ok(Ok(bv)), Some(e)) => {
            if from_bv(&bv) != e {
                rep.violation(sig("wrong-value"), None, format!("Bitvector::un_op({op:?},{a:?}) = {:?}, reference = {e:?}", from_bv(&bv)), case(), size_of(&[a]));
            }
        }
        (Ok(Ok(bv)), None) => rep.violation(sig("value-for-unsupported"), None, format!("Bitvector::un_op({op:?},{a:?}) = {:?}, must be unknown", from_bv(&bv)), case(), size_of(&[a])),
        (Ok(Err(_)), Some(e)) => rep.violation(sig("unknown-for-supported"), None, format!("Bitvector::un_op({op:?},{a:?}) errors, reference = {e:?}"), case(), size_of(&[a])),
        (Ok(Err(_)), None) => (),
    }
    let ad = BitvectorDomain::Value(abv.clone());
    match (guard(|| ad.un_op(op)), expected) {
        (Err(p), _) => rep.violation(sig("domain-panic"), None, format!("BitvectorDomain::un_op({op:?},{a:?}) panicked: {p}"), case(), size_of(&[a])),
        (Ok(BitvectorDomain::Value(bv)), Some(e)) => {
            if from_bv(&bv) != e {
                rep.violation(sig("domain-wrong-value"), None, format!("BitvectorDomain::un_op({op:?},{a:?}) = {:?}, reference = {e:?}", from_bv(&bv)), case(), size_of(&[a]));
            }
        }
        (Ok(BitvectorDomain::Value(bv)), None) => rep.violation(sig("domain-value-for-unsupported"), None, format!("BitvectorDomain::un_op({op:?},{a:?}) = {:?}, must be Top", from_bv(&bv)), case(), size_of(&[a])),
        (Ok(BitvectorDomain::Top(_)), Some(e)) => rep.violation(sig("domain-top-for-supported"), None, format!("BitvectorDomain::un_op({op:?},{a:?}) = Top, reference = {e:?}"), case(), size_of(&[a])),
        (Ok(BitvectorDomain::Top(sz)), None) => {
            let e = Expression::UnOp { op, arg: Box::new(Expression::Const(abv.clone())) };
            if e.bytesize() != sz {
                rep.violation(sig("domain-top-width"), None, format!("BitvectorDomain::un_op({op:?}) = Top({sz}) but Expression::bytesize says {}", e.bytesize()), case(), size_of(&[a]));
            }
        }
    }
    // Top in => Top out with the width of the expression
    let t = BitvectorDomain::Top(bs(a.w));
    let e = Expression::UnOp { op, arg: Box::new(Expression::Const(abv)) };
    match guard(|| t.un_op(op)) {
        Ok(BitvectorDomain::Top(sz)) if sz == e.bytesize() || op == UnOpType::BoolNegate => (),
        other => rep.violation(sig("top-in-not-top-out"), None, format!("BitvectorDomain::un_op({op:?}) on Top returned {other:?}"), case(), size_of(&[a])),
    }
    nontrivial(rep, 1000 + op as u64, &[a], expected.is_some());
    rep.obs(&format!("un:{op:?}:w{}", a.w));
}

pub fn check_cast(op: CastOpType, size: u32, a: V, rep: &mut Report) {
    rep.eval();
    let expected = pref::cast(op, size, a);
    let case = || json!({"kind":"cast","op":op,"size":size,"a":vjson(a)});
    let sig = |what: &str| format!("cast:{op:?}:w{}to{size}:{what}", a.w);
    let abv = to_bv(a);
    match (guard(|| abv.cast(op, bs(size))), expected) {
        (Err(p), _) => rep.violation(sig("panic"), None, format!("Bitvector::cast({op:?},{size},{a:?}) panicked: {p}"), case(), size_of(&[a])),
        (Ok(Ok(bv)), Some(e)) => {
            if from_bv(&bv) != e {
                rep.violation(sig("wrong-value"), None, format!("Bitvector::cast({op:?},{size},{a:?}) = {:?}, reference = {e:?}", from_bv(&bv)), case(), size_of(&[a]));
            }
        }
        (Ok(Ok(bv)), None) => rep.violation(sig("value-for-unsupported"), None, format!("Bitvector::cast({op:?},{size},{a:?}) = {:?}, must be unknown", from_bv(&bv)), case(), size_of(&[a])),
        (Ok(Err(_)), Some(e)) => rep.violation(sig("unknown-for-supported"), None, format!("Bitvector::cast({op:?},{size},{a:?}) errors, reference = {e:?}"), case(), size_of(&[a])),
        (Ok(Err(_)), None) => (),
    }
    let ad = BitvectorDomain::Value(abv);
    match (guard(|| ad.cast(op, bs(size))), expected) {
        (Err(p), _) => rep.violation(sig("domain-panic"), None, format!("BitvectorDomain::cast({op:?},{size},{a:?}) panicked: {p}"), case(), size_of(&[a])),
        (Ok(BitvectorDomain::Value(bv)), Some(e)) => {
            if from_bv(&bv) != e {
                rep.violation(sig("domain-wrong-value"), None, format!("BitvectorDomain::cast({op:?},{size},{a:?}) = {:?}, reference = {e:?}", from_bv(&bv)), case(), size_of(&[a]));
            }
        }
        (Ok(BitvectorDomain::Value(bv)), None) => rep.violation(sig("domain-value-for-unsupported"), None, format!("BitvectorDomain::cast({op:?},{size},{a:?}) = {:?}, must be Top", from_bv(&bv)), case(), size_of(&[a])),
        (Ok(BitvectorDomain::Top(_)), Some(e)) => rep.violation(sig("domain-top-for-supported"), None, format!("BitvectorDomain::cast({op:?},{size},{a:?}) = Top, reference = {e:?}"), case(), size_of(&[a])),
        (Ok(BitvectorDomain::Top(sz)), None) => {
            if u64::from(sz) != size as u64 {
                rep.violation(sig("domain-top-width"), None, format!("BitvectorDomain::cast({op:?},{size}) = Top({sz})"), case(), size_of(&[a]));
            }
        }
    }
    match guard(|| BitvectorDomain::Top(bs(a.w)).cast(op, bs(size))) {
        Ok(BitvectorDomain::Top(sz)) if u64::from(sz) == size as u64 => (),
        other => rep.violation(sig("top-in-not-top-out"), None, format!("BitvectorDomain::cast({op:?},{size}) on Top returned {other:?}"), case(), size_of(&[a])),
    }
    nontrivial(rep, 2000 + op as u64 * 32 + size as u64, &[a], expected.is_some());
    rep.obs(&format!("cast:{op:?}:w{}to{size}", a.w));
}

pub fn check_subpiece(low: u32, size: u32, a: V, rep: &mut Report) {
    rep.eval();
    let expected = pref::subpiece(low, size, a);
    let case = || json!({"kind":"subpiece","low":low,"size":size,"a":vjson(a)});
    let sig = |what: &str| format!("subpiece:w{}:{what}", a.w);
    let abv = to_bv(a);
    match guard(|| abv.subpiece(bs(low), bs(size))) {
        Err(p) => rep.violation(sig("panic"), None, format!("Bitvector::subpiece({low},{size},{a:?}) panicked: {p}"), case(), size_of(&[a])),
        Ok(bv) => {
            if from_bv(&bv) != expected {
                rep.violation(sig("wrong-value"), None, format!("Bitvector::subpiece({low},{size},{a:?}) = {:?}, reference = {expected:?}", from_bv(&bv)), case(), size_of(&[a]));
            }
        }
    }
    match guard(|| BitvectorDomain::Value(abv).subpiece(bs(low), bs(size))) {
        Ok(BitvectorDomain::Value(bv)) if from_bv(&bv) == expected => (),
        other => rep.violation(sig("domain-wrong"), None, format!("BitvectorDomain::subpiece({low},{size},{a:?}) = {other:?}, reference = {expected:?}"), case(), size_of(&[a])),
    }
    match guard(|| BitvectorDomain::Top(bs(a.w)).subpiece(bs(low), bs(size))) {
        Ok(BitvectorDomain::Top(sz)) if u64::from(sz) == size as u64 => (),
        other => rep.violation(sig("top-in-not-top-out"), None, format!("BitvectorDomain::subpiece on Top returned {other:?}"), case(), size_of(&[a])),
    }
    nontrivial(rep, 3000 + low as u64 * 32 + size as u64, &[a], true);
    rep.obs(&format!("subpiece:w{}", a.w));
}

#[derive(Clone, Debug)]
enum Task {
    /// exhaustive 1-byte pairs for `op`, first operand high nibble range
    ExhBin(BinOpType, u32, u32),
    ExhUnCast,
    ExhSubpiece(u32),
    SampleBin(BinOpType, u32, u64),
    SampleMixed(u64),
    SampleUnCast(u32, u64),
    ExprTrees(u64),
}

fn random_expr(rng: &mut Rng, depth: u32, want_w: u32) -> (Expression, u32) {
    // returns an expression and the width the reference computes for it
    if depth == 0 || rng.chance(1, 4) {
        let v = V::new(rng.biased(want_w), want_w);
        return (Expression::Const(to_bv(v)), want_w);
    }
    match rng.below(5) {
        0 => {
            // same-size arithmetic
            let ops = [BinOpType::IntAdd, BinOpType::IntSub, BinOpType::IntAnd, BinOpType::IntXOr, BinOpType::IntMult, BinOpType::IntSDiv, BinOpType::IntLeft];
            let op = *rng.pick(&ops);
            let (l, lw) = random_expr(rng, depth - 1, want_w);
            let rw = if pref::is_shift(op) { *rng.pick(&[1, 2, 4, 8]) } else { want_w };
            let (r, rw2) = random_expr(rng, depth - 1, rw);
            (Expression::BinOp { op, lhs: Box::new(l), rhs: Box::new(r) }, pref::bin_width(op, lw, rw2).unwrap())
        }
        1 if want_w == 1 => {
            let ops = [BinOpType::IntEqual, BinOpType::IntSLess, BinOpType::IntCarry, BinOpType::IntSBorrow, BinOpType::IntLessEqual];
            let op = *rng.pick(&ops);
            let w = *rng.pick(&[1u32, 2, 4, 8]);
            let (l, _) = random_expr(rng, depth - 1, w);
            let (r, _) = random_expr(rng, depth - 1, w);
            (Expression::BinOp { op, lhs: Box::new(l), rhs: Box::new(r) }, 1)
        }
        2 if want_w >= 2 => {
            // piece
            let lw = rng.range_usize(1, want_w as usize - 1) as u32;
            let (l, _) = random_expr(rng, depth - 1, lw);
            let (r, _) = random_expr(rng, depth - 1, want_w - lw);
            (Expression::BinOp { op: BinOpType::Piece, lhs: Box::new(l), rhs: Box::new(r) }, want_w)
        }
        3 => {
            // cast from smaller or subpiece from larger
            if want_w > 1 && rng.bool() {
                let aw = rng.range_usize(1, want_w as usize) as u32;
                let (a, _) = random_expr(rng, depth - 1, aw);
                let op = *rng.pick(&[CastOpType::IntZExt, CastOpType::IntSExt, CastOpType::PopCount, CastOpType::LzCount]);
                (Expression::Cast { op, size: bs(want_w), arg: Box::new(a) }, want_w)
            } else {
                let aw = (want_w + rng.below(4) as u32).min(16);
                let low = rng.below((aw - want_w + 1) as u64) as u32;
                let (a, _) = random_expr(rng, depth - 1, aw);
                (Expression::Subpiece { low_byte: bs(low), size: bs(want_w), arg: Box::new(a) }, want_w)
            }
        }
        _ => {
            let op = *rng.pick(&[UnOpType::IntNegate, UnOpType::Int2Comp]);
            let (a, w) = random_expr(rng, depth - 1, want_w);
            (Expression::UnOp { op, arg: Box::new(a) }, w)
        }
    }
}

/// Width of an expression according to the P-Code rules (independent of `Expression::bytesize`).
fn ref_width(e: &Expression) -> Option<u32> {
    match e {
        Expression::Const(bv) => Some(from_bv(bv).w),
        Expression::Var(v) => Some(u64::from(v.size) as u32),
        Expression::BinOp { op, lhs, rhs } => pref::bin_width(*op, ref_width(lhs)?, ref_width(rhs)?),
        Expression::UnOp { op, arg } => {
            if *op == UnOpType::FloatNaN {
                Some(1)
            } else {
                ref_width(arg)
            }
        }
        Expression::Cast { size, .. } | Expression::Subpiece { size, .. } | Expression::Unknown { size, .. } => Some(u64::from(*size) as u32),
    }
}

/// Evaluate an expression tree with the reference (None = unknown).
fn ref_eval(e: &Expression) -> Option<V> {
    match e {
        Expression::Const(bv) => Some(from_bv(bv)),
        Expression::BinOp { op, lhs, rhs } => pref::bin(*op, ref_eval(lhs)?, ref_eval(rhs)?),
        Expression::UnOp { op, arg } => pref::un(*op, ref_eval(arg)?),
        Expression::Cast { op, size, arg } => pref::cast(*op, u64::from(*size) as u32, ref_eval(arg)?),
        Expression::Subpiece { low_byte, size, arg } => {
            Some(pref::subpiece(u64::from(*low_byte) as u32, u64::from(*size) as u32, ref_eval(arg)?))
        }
        _ => None,
    }
}

/// Evaluate an expression tree bottom-up with the implementation's BitvectorDomain.
fn impl_eval(e: &Expression) -> BitvectorDomain {
    match e {
        Expression::Const(bv) => BitvectorDomain::Value(bv.clone()),
        Expression::BinOp { op, lhs, rhs } => impl_eval(lhs).bin_op(*op, &impl_eval(rhs)),
        Expression::UnOp { op, arg } => impl_eval(arg).un_op(*op),
        Expression::Cast { op, size, arg } => impl_eval(arg).cast(*op, *size),
        Expression::Subpiece { low_byte, size, arg } => impl_eval(arg).subpiece(*low_byte, *size),
        Expression::Unknown { size, .. } => BitvectorDomain::Top(*size),
        Expression::Var(v) => BitvectorDomain::Top(v.size),
    }
}

fn check_expr_tree(e: &Expression, w: u32, rep: &mut Report) {
    rep.eval();
    let case = || json!({"kind":"expr","expr":e});
    if u64::from(e.bytesize()) != w as u64 {
        rep.violation("expr:bytesize", None, format!("Expression::bytesize = {} but the reference width is {w} for {e}", e.bytesize()), case(), 10);
    }
    let expected = ref_eval(e);
    match guard(|| impl_eval(e)) {
        Err(p) => rep.violation("expr:panic", None, format!("evaluating {e} with BitvectorDomain panicked: {p}"), case(), 10),
        Ok(got) => {
            if u64::from(got.bytesize()) != w as u64 {
                rep.violation("expr:result-width", None, format!("BitvectorDomain evaluation of {e} has width {} expected {w}", got.bytesize()), case(), 10);
            }
            match (got, expected) {
                (BitvectorDomain::Value(bv), Some(ex)) => {
                    if from_bv(&bv) != ex {
                        rep.violation("expr:wrong-value", None, format!("{e} evaluates to {:?}, reference {ex:?}", from_bv(&bv)), case(), 10);
                    }
                    rep.nontrivial(fp_of(e));
                }
                (BitvectorDomain::Value(bv), None) => rep.violation("expr:value-for-unknown", None, format!("{e} evaluates to {:?}, reference says unknown", from_bv(&bv)), case(), 10),
                (BitvectorDomain::Top(_), Some(ex)) => rep.violation("expr:top-for-value", None, format!("{e} evaluates to Top, reference {ex:?}"), case(), 10),
                (BitvectorDomain::Top(_), None) => rep.obs("expr:unknown"),
            }
        }
    }
    rep.obs("expr-trees");
}

fn run_task(task: &Task, cfg: &Cfg, rng: &mut Rng, rep: &mut Report) {
    let samples = cfg.tier.pick(200_000u64, 600_000u64);
    match task {
        Task::ExhBin(op, lo, hi) => {
            let op = *op;
            if pref::is_bool_bin(op) {
                for a in 0..2u128 {
                    for b in 0..2u128 {
                        check_bin(op, V::new(a, 1), V::new(b, 1), rep, true);
                    }
                }
            } else {
                for a in *lo..*hi {
                    for b in 0..256u128 {
                        check_bin(op, V::new(a as u128, 1), V::new(b, 1), rep, (a as u128 + b) % 7 == 0);
                        // count all of them as distinct cases, cheaply
                        if a > 1 || b > 1 {
                            rep.nontrivial(((op as u64) << 20) | ((a as u64) << 8) | b as u64);
                        }
                    }
                }
            }
            rep.exhaustive_parts.push(format!("all 1-byte operand pairs of {op:?}"));
        }
        Task::ExhUnCast => {
            for a in 0..256u128 {
                let v = V::new(a, 1);
                for op in pref::INT_UN_OPS {
                    if *op == UnOpType::BoolNegate && a > 1 {
                        continue;
                    }
                    check_un(*op, v, rep);
                }
                for op in pref::FLOAT_UN_OPS {
                    check_un(*op, v, rep);
                }
                for size in [1u32, 2, 3, 4, 8, 16] {
                    check_cast(CastOpType::IntZExt, size, v, rep);
                    check_cast(CastOpType::IntSExt, size, v, rep);
                }
                for size in [1u32, 2, 4, 8] {
                    check_cast(CastOpType::PopCount, size, v, rep);
                    check_cast(CastOpType::LzCount, size, v, rep);
                }
                for op in pref::FLOAT_CASTS {
                    check_cast(*op, 4, v, rep);
                }
                for op in pref::FLOAT_BIN_OPS {
                    check_bin(*op, v, V::new(255 - a, 1), rep, true);
                }
            }
            rep.exhaustive_parts.push("all 1-byte operands of every unary op and cast".into());
        }
        Task::ExhSubpiece(hi_byte) => {
            for lo in 0..256u128 {
                let v = V::new(((*hi_byte as u128) << 8) | lo, 2);
                for (low, size) in [(0u32, 1u32), (1, 1), (0, 2)] {
                    check_subpiece(low, size, v, rep);
                }
            }
            if *hi_byte == 255 {
                rep.exhaustive_parts.push("all 2-byte values x all subpieces".into());
            }
        }
        Task::SampleBin(op, w, n) => {
            for _ in 0..*n {
                let a = V::new(rng.biased(*w), *w);
                let mut b = V::new(rng.biased(*w), *w);
                if rng.chance(1, 8) {
                    b = a;
                }
                if rng.chance(1, 8) {
                    b = V::new(a.v.wrapping_add(rng.below(5) as u128).wrapping_sub(2), *w);
                }
                if pref::is_bool_bin(*op) {
                    continue;
                }
                if pref::is_shift(*op) && *w > 8 {
                    // shift amounts wider than 8 bytes are outside the input domain
                    b = V::new(b.v & 0xffff_ffff, 8);
                }
                check_bin(*op, a, b, rep, true);
            }
        }
        Task::SampleMixed(n) => {
            for _ in 0..*n {
                // mixed width shifts and piece
                let aw = *rng.pick(&[1u32, 2, 3, 4, 8, 16]);
                let a = V::new(rng.biased(aw), aw);
                if rng.bool() {
                    let bw = *rng.pick(&[1u32, 2, 4, 8]);
                    let b = V::new(rng.biased(bw), bw);
                    let op = *rng.pick(&[BinOpType::IntLeft, BinOpType::IntRight, BinOpType::IntSRight]);
                    check_bin(op, a, b, rep, true);
                } else {
                    let max_b = 16 - aw;
                    if max_b == 0 {
                        continue;
                    }
                    let bw = rng.range_usize(1, max_b as usize) as u32;
                    let b = V::new(rng.biased(bw), bw);
                    check_bin(BinOpType::Piece, a, b, rep, true);
                }
            }
        }
        Task::SampleUnCast(w, n) => {
            for _ in 0..*n {
                let a = V::new(rng.biased(*w), *w);
                check_un(UnOpType::IntNegate, a, rep);
                check_un(UnOpType::Int2Comp, a, rep);
                check_un(*rng.pick(pref::FLOAT_UN_OPS), a, rep);
                let tw = (*w + rng.below((17 - *w) as u64) as u32).min(16);
                check_cast(CastOpType::IntZExt, tw, a, rep);
                check_cast(CastOpType::IntSExt, tw, a, rep);
                let cw = *rng.pick(&[1u32, 2, 4, 8]);
                check_cast(CastOpType::PopCount, cw, a, rep);
                check_cast(CastOpType::LzCount, cw, a, rep);
                check_cast(*rng.pick(pref::FLOAT_CASTS), cw, a, rep);
                let size = rng.range_usize(1, *w as usize) as u32;
                let low = rng.below((*w - size + 1) as u64) as u32;
                check_subpiece(low, size, a, rep);
            }
        }
        Task::ExprTrees(n) => {
            for i in 0..*n {
                let w = *rng.pick(&[1u32, 2, 4, 8]);
                let (e, ew) = random_expr(rng, 3, w);
                check_expr_tree(&e, ew, rep);
                if i < 2 && rep.wants_sample() {
                    rep.sample(json!({"kind":"expr","expr": format!("{e}"), "reference_value": format!("{:?}", ref_eval(&e))}));
                }
            }
        }
    }
    let _ = samples;
}

fn run(cfg: &Cfg) -> Report {
    let mut tasks: Vec<Task> = Vec::new();
    for op in pref::INT_BIN_OPS {
        if pref::is_bool_bin(*op) {
            tasks.push(Task::ExhBin(*op, 0, 2));
        } else {
            for chunk in 0..4 {
                tasks.push(Task::ExhBin(*op, chunk * 64, (chunk + 1) * 64));
            }
        }
    }
    tasks.push(Task::ExhUnCast);
    for hi in 0..256 {
        tasks.push(Task::ExhSubpiece(hi));
    }
    let n = cfg.tier.pick(100_000u64, 400_000u64);
    let reps = cfg.tier.pick(1, 4);
    for _ in 0..reps {
        for op in pref::INT_BIN_OPS.iter().chain(pref::FLOAT_BIN_OPS.iter()) {
            for w in [2u32, 4, 8, 16] {
                tasks.push(Task::SampleBin(*op, w, n));
            }
            // widths outside the property's stated quantifier (1/2/4/8) that real P-Code contains (3-byte, 10-byte x87, ...)
            for w in [3u32, 5, 6, 7, 9, 10, 11, 12, 15] {
                tasks.push(Task::SampleBin(*op, w, n / 8));
            }
        }
        for w in [2u32, 3, 4, 8, 16] {
            tasks.push(Task::SampleUnCast(w, n));
        }
        for w in [5u32, 6, 7, 9, 10, 11, 12, 15] {
            tasks.push(Task::SampleUnCast(w, n / 8));
        }
        for _ in 0..8 {
            tasks.push(Task::SampleMixed(n));
            tasks.push(Task::ExprTrees(n / 2));
        }
    }
    let mut rep = par_shards(cfg, "c01", tasks.len(), |idx, rng, rep| run_task(&tasks[idx], cfg, rng, rep));
    if cfg.tier == Tier::Thorough {
        let args: Vec<String> = vec!["c01-wide".into(), "150".into(), cfg.seed.to_string()];
        // The aliasing model is switched off for this layer: Miri (Stacked Borrows and Tree Borrows alike) rejects
        // `apint 0.2`'s `ApInt::drop_digits` (deallocation through a pointer derived from a shared reference) on the
        // first drop of any bitvector wider than 64 bits - a finding in the *dependency*, recorded in DESIGN.md §11.5,
        // which would otherwise hide every other class of undefined behaviour (out-of-bounds, uninitialised reads,
        // invalid values) that this layer is there to look for.
        let outcome = crate::miri::run_logmon_under_miri_with(cfg, &args, None, 1500, "-Zmiri-disable-stacked-borrows");
        crate::miri::fold(&mut rep, "c01-wide-operands", &args, outcome);
        rep.note("Miri layer runs with -Zmiri-disable-stacked-borrows (apint 0.2 drop_digits violates the aliasing models; dependency finding, see DESIGN.md §11.5)");
    }
    rep.sample(json!({"kind":"bin","op":"IntSBorrow","a":vjson(V::from_i(-5,1)),"b":vjson(V::from_i(-3,1)),"reference":"0"}));
    rep.sample(json!({"kind":"bin","op":"IntSRight","a":vjson(V::new(0x8000_0000,4)),"b":vjson(V::new(40,1)),"reference":"0xffffffff"}));
    rep.sample(json!({"kind":"cast","op":"LzCount","size":1,"a":vjson(V::new(1,8)),"reference":"63"}));
    rep
}

/// `logmon c01-wide <ops> <seed>`: 16-byte (and 9..15-byte) operations, where `apint` uses its heap representation
/// (dependency `unsafe` code) - small enough to run under Miri.
pub fn logmon_main(args: &[String]) -> i32 {
    let n: u64 = args.first().and_then(|s| s.parse().ok()).unwrap_or(200);
    let seed: u64 = args.get(1).and_then(|s| s.parse().ok()).unwrap_or(1);
    let mut rng = Rng::derive(seed, "logmon-c01", 0);
    let mut rep = Report::new();
    for i in 0..n {
        let w = *rng.pick(&[16u32, 16, 9, 10, 12, 15]);
        let a = V::new(rng.biased(w), w);
        let op = pref::INT_BIN_OPS[(i as usize) % pref::INT_BIN_OPS.len()];
        if pref::is_bool_bin(op) || op == BinOpType::Piece {
            let lw = rng.range_usize(1, 8) as u32;
            let rw = rng.range_usize(1, 8) as u32;
            check_bin(BinOpType::Piece, V::new(rng.biased(lw), lw), V::new(rng.biased(rw), rw), &mut rep, true);
        } else if pref::is_shift(op) {
            check_bin(op, a, V::new(rng.biased(1), 1), &mut rep, true);
        } else {
            check_bin(op, a, V::new(rng.biased(w), w), &mut rep, true);
        }
        check_un(UnOpType::Int2Comp, a, &mut rep);
        check_cast(CastOpType::IntSExt, 16, a, &mut rep);
        check_cast(CastOpType::LzCount, 2, a, &mut rep);
        let size = rng.range_usize(1, w as usize) as u32;
        check_subpiece(rng.below((w - size + 1) as u64) as u32, size, a, &mut rep);
    }
    for (sig, v) in &rep.violations {
        println!("VIOLATION property=C01 signature={sig} detail={}", v.detail);
    }
    println!("logmon c01-wide: ops={n} evaluations={} violations={}", rep.evaluations, rep.violations.len());
    if rep.violations.is_empty() { 0 } else { 1 }
}

fn replay(_cfg: &Cfg, case: &Value) -> Report {
    let mut rep = Report::new();
    let kind = case["kind"].as_str().unwrap_or("");
    match kind {
        "bin" => {
            if let (Ok(op), Some(a), Some(b)) = (serde_json::from_value::<BinOpType>(case["op"].clone()), vparse(&case["a"]), vparse(&case["b"])) {
                check_bin(op, a, b, &mut rep, true);
            }
        }
        "un" => {
            if let (Ok(op), Some(a)) = (serde_json::from_value::<UnOpType>(case["op"].clone()), vparse(&case["a"])) {
                check_un(op, a, &mut rep);
            }
        }
        "cast" => {
            if let (Ok(op), Some(a), Some(size)) = (serde_json::from_value::<CastOpType>(case["op"].clone()), vparse(&case["a"]), case["size"].as_u64()) {
                check_cast(op, size as u32, a, &mut rep);
            }
        }
        "subpiece" => {
            if let (Some(a), Some(low), Some(size)) = (vparse(&case["a"]), case["low"].as_u64(), case["size"].as_u64()) {
                check_subpiece(low as u32, size as u32, a, &mut rep);
            }
        }
        "expr" => {
            if let Ok(e) = serde_json::from_value::<Expression>(case["expr"].clone()) {
                if let Some(w) = ref_width(&e) {
                    check_expr_tree(&e, w, &mut rep);
                }
            }
        }
        _ => rep.note("unknown replay case kind"),
    }
    rep
}
