//! C08 — the interprocedural control flow graph represents exactly the program's control flow.
//!
//! Monitor shape: the real `get_program_cfg_with_logs` / `get_program_cfg` / `get_entry_nodes_of_subs`
//! are executed on random multi-function programs (raw, i.e. with blocks shared between functions, and
//! the same programs after `Project::normalize_basic`). An independent specification (`spec_of`),
//! written from the module documentation of `analysis/graph.rs` and the property statement, computes the
//! expected node and edge *multisets* declaratively from the program (reachability closure per function,
//! then one rule per jump kind). Both sides are compared by canonical labels, so node numbering and the
//! order in which the builder discovers blocks are irrelevant.
//!
//! The generator (`gen_program`) is shared with C09, which switches on the irregularities
//! (dangling targets, duplicated tids) that are outside the input domain of the graph builder.

use crate::core::*;
use crate::irb::*;
use crate::prng::Rng;
use cwe_checker_lib::analysis::graph::{self, Edge, Graph, Node};
use cwe_checker_lib::intermediate_representation::*;
use petgraph::visit::EdgeRef;
use serde_json::{json, Value};
use std::collections::{BTreeMap, BTreeSet};

pub fn info() -> CheckInfo {
    CheckInfo {
        id: "C08",
        rule: "random programs (<= 6 functions, <= 8 blocks each; empty functions; 0/1/2 jumps per block with [CBranch, unconditional]; BranchInd with 0-3 possibly repeated target hints; internal/extern/indirect calls with and without return site; calls to empty functions and to unknown tids; several return blocks per function; recursion; blocks of one function jumped to or listed by another) checked in raw form and after normalize_basic: node and edge multisets of get_program_cfg_with_logs compared by canonical labels (kind, block tid, function tid, jump tids) with the specification; get_entry_nodes_of_subs compared with {non-empty function -> BlkStart of its first block}; get_program_cfg must give the same labels. non-trivial = the expected graph contains at least one Call edge or stub edge and at least one Jump edge; distinct = hash of (stage, program)",
        assumptions: &[
            "input domain of the builder (guards of the generator, re-checked by the oracle): at most two jumps per block, the first of two is a CBranch; every branch target, return site and hint of an indirect jump exists as a block somewhere in the program (the builder resolves foreign blocks with find_block(..).unwrap()); blocks listed under the same tid in several functions have identical content; no block tid listed twice in the same function",
            "CALLOTHER jumps produce no edges and their return site is not followed (documented TODO in graph.rs); hints on blocks without BranchInd produce no edges (Blk documentation: the hints belong to the indirect jump)",
            "documentation silent: whether the return-site block of a call that has no linkage at all (callee empty/unknown, or callee without any returning block) belongs to the caller's part of the graph when it is not reachable otherwise. Such programs (only possible in raw form) are counted inconclusive, never pass/fail",
            "module documentation says the CRCallStub edge starts at the BlkEnd node of the callsite, the builder (and the fixpoint code consuming it) starts it at the CallSource node of the same callsite: both are accepted (the label of that edge's source is the callsite (block, function) pair)",
        ],
        run,
        replay,
    }
}

// ---------------------------------------------------------------------------------------------
// Generator (shared with C09)

#[derive(Clone, Debug)]
pub struct Knobs {
    pub max_subs: usize,
    pub max_blocks: usize,
    /// n/8 = probability that an intraprocedural target is drawn from the blocks of *all* functions
    pub shared: u32,
    /// list clones of non-entry blocks in a second function (raw form of shared blocks)
    pub listed_shared: bool,
    /// C09: dangling branch/return/hint targets
    pub dangling: bool,
    /// C09: duplicated def / jmp / non-entry block tids
    pub dup_tids: bool,
    /// calls to tids that are neither a function nor an extern symbol
    pub unknown_calls: bool,
    /// a few CALLOTHER jumps (no edges by design)
    pub callother: bool,
    /// second jump of a two-jump block may also be BranchInd/Call/CallInd/Return
    pub two_jump_variants: bool,
}

impl Knobs {
    pub fn c08(rng: &mut Rng) -> Knobs {
        Knobs {
            max_subs: 6,
            max_blocks: 8,
            shared: *rng.pick(&[0u32, 0, 1, 1, 2, 3]),
            listed_shared: rng.chance(1, 3),
            dangling: false,
            dup_tids: false,
            unknown_calls: true,
            callother: rng.chance(1, 6),
            two_jump_variants: rng.chance(1, 2),
        }
    }
}

pub fn sub_tid(i: usize) -> Tid {
    tid(&format!("sub_{:02}000", i), &format!("{:02}000", i))
}
pub fn blk_addr(i: usize, k: usize) -> String {
    format!("{:02}{:03}", i, k * 8)
}
pub fn blk_tid(i: usize, k: usize) -> Tid {
    let a = blk_addr(i, k);
    tid(&format!("blk_{a}"), &a)
}
pub fn ext_ret_tid() -> Tid {
    tid("sub_ext_puts", "ext_puts")
}
pub fn ext_noret_tid() -> Tid {
    tid("sub_ext_exit", "ext_exit")
}
pub fn unknown_sub_tid(n: u64) -> Tid {
    tid(&format!("sub_dead{n}"), &format!("dead{n}"))
}

struct Gen<'a> {
    rng: &'a mut Rng,
    k: Knobs,
    n_blocks: Vec<usize>,
    never_returns: Vec<bool>,
    counter: u32,
}

impl<'a> Gen<'a> {
    fn instr(&mut self, addr: &str) -> Tid {
        self.counter += 1;
        tid(&format!("instr_{addr}_{}", self.counter), addr)
    }

    /// Intraprocedural target (branch target, return site, hint) for a block of function `i`.
    fn target(&mut self, i: usize) -> Tid {
        if self.k.dangling && self.rng.chance(1, 9) {
            let n = self.rng.below(3);
            return tid(&format!("blk_dead{n}"), &format!("dead{n}"));
        }
        if self.k.shared > 0 && self.rng.chance(self.k.shared as u64, 8) {
            let cands: Vec<usize> = (0..self.n_blocks.len()).filter(|j| self.n_blocks[*j] > 0).collect();
            if !cands.is_empty() {
                let j = *self.rng.pick(&cands);
                let nb = self.n_blocks[j];
                let kk = if nb > 1 && !self.rng.chance(1, 4) { self.rng.range_usize(1, nb - 1) } else { self.rng.usize_below(nb) };
                return blk_tid(j, kk);
            }
        }
        blk_tid(i, self.rng.usize_below(self.n_blocks[i]))
    }

    fn call_target(&mut self, i: usize) -> Tid {
        match self.rng.below(20) {
            0..=8 => sub_tid(self.rng.usize_below(self.n_blocks.len())),
            9 | 10 => sub_tid(i),
            11..=14 => ext_ret_tid(),
            15 | 16 => ext_noret_tid(),
            17 if self.k.unknown_calls => unknown_sub_tid(self.rng.below(2)),
            _ => sub_tid(self.rng.usize_below(self.n_blocks.len())),
        }
    }

    fn hints(&mut self, i: usize, max: usize) -> Vec<Tid> {
        let n = self.rng.range_usize(0, max);
        let mut v: Vec<Tid> = Vec::new();
        for _ in 0..n {
            if !v.is_empty() && self.rng.chance(1, 4) {
                let d = self.rng.pick(&v).clone();
                v.push(d); // repeated hint
            } else {
                v.push(self.target(i));
            }
        }
        v
    }

    /// One unconditional jump; `class` selects the kind.
    fn uncond(&mut self, i: usize, addr: &str, class: u64, hints: &mut Vec<Tid>) -> Term<Jmp> {
        let t = self.instr(addr);
        match class {
            0 => jmp(t, Jmp::Branch(self.target(i))),
            1 => {
                *hints = self.hints(i, 3);
                jmp(t, Jmp::BranchInd(e_reg("RAX")))
            }
            2 => {
                let target = self.call_target(i);
                let return_ = if self.rng.chance(1, 5) { None } else { Some(self.target(i)) };
                jmp(t, Jmp::Call { target, return_ })
            }
            3 => {
                let return_ = if self.rng.chance(1, 4) { None } else { Some(self.target(i)) };
                jmp(t, Jmp::CallInd { target: e_reg("RBX"), return_ })
            }
            4 => {
                let return_ = if self.rng.chance(1, 4) { None } else { Some(self.target(i)) };
                jmp(t, Jmp::CallOther { description: "CALLOTHER(cpuid)".to_string(), return_ })
            }
            _ => {
                if self.never_returns[i] {
                    jmp(t, Jmp::Branch(self.target(i)))
                } else {
                    jmp(t, Jmp::Return(e_reg("RCX")))
                }
            }
        }
    }

    fn uncond_class(&mut self) -> u64 {
        match self.rng.below(12) {
            0..=2 => 0,
            3 | 4 => 1,
            5..=7 => 2,
            8 => 3,
            _ => 5,
        }
    }

    fn defs(&mut self, addr: &str) -> Vec<Term<Def>> {
        let n = self.rng.below(3);
        (0..n)
            .map(|_| {
                let t = self.instr(addr);
                let r = *self.rng.pick(&["RAX", "RBX", "RDI"]);
                assign(t, reg(r), e_const(self.rng.below(100) as i64, 8))
            })
            .collect()
    }

    fn block(&mut self, i: usize, k: usize) -> Term<Blk> {
        let addr = blk_addr(i, k);
        let defs = self.defs(&addr);
        let mut hints = Vec::new();
        let mut jmps = Vec::new();
        match self.rng.below(20) {
            0 => (),
            1..=5 => jmps.push(self.uncond(i, &addr, 0, &mut hints)),
            6..=10 => {
                let t = self.instr(&addr);
                let cond = e_var(&var(*self.rng.pick(FLAGS), 1));
                jmps.push(jmp(t, Jmp::CBranch { target: self.target(i), condition: cond }));
                let class = if self.k.two_jump_variants && self.rng.chance(1, 3) { self.uncond_class() } else { 0 };
                jmps.push(self.uncond(i, &addr, class, &mut hints));
            }
            11 | 12 => jmps.push(self.uncond(i, &addr, 1, &mut hints)),
            13..=15 => jmps.push(self.uncond(i, &addr, 2, &mut hints)),
            16 => jmps.push(self.uncond(i, &addr, 3, &mut hints)),
            17 if self.k.callother && self.rng.chance(1, 2) => jmps.push(self.uncond(i, &addr, 4, &mut hints)),
            _ => jmps.push(self.uncond(i, &addr, 5, &mut hints)),
        }
        let has_ind = jmps.iter().any(|j| matches!(j.term, Jmp::BranchInd(_)));
        if !has_ind && self.rng.chance(1, 14) {
            // hints on a block without an indirect jump (stale data): must not produce edges
            hints = self.hints(i, 2);
        }
        let mut b = blk(blk_tid(i, k), defs, jmps);
        b.term.indirect_jmp_targets = hints;
        b
    }

    fn inject_duplicates(&mut self, subs: &mut [Term<Sub>]) {
        // duplicated def tids
        for _ in 0..self.rng.below(4) {
            let pos: Vec<(usize, usize, usize)> = subs
                .iter()
                .enumerate()
                .flat_map(|(s, sub)| sub.term.blocks.iter().enumerate().flat_map(move |(b, blk)| (0..blk.term.defs.len()).map(move |d| (s, b, d))))
                .collect();
            if pos.len() < 2 {
                break;
            }
            let p = *self.rng.pick(&pos);
            let q = *self.rng.pick(&pos);
            if p != q {
                let t = subs[p.0].term.blocks[p.1].term.defs[p.2].tid.clone();
                subs[q.0].term.blocks[q.1].term.defs[q.2].tid = t;
            }
        }
        // duplicated jmp tids
        for _ in 0..self.rng.below(4) {
            let pos: Vec<(usize, usize, usize)> = subs
                .iter()
                .enumerate()
                .flat_map(|(s, sub)| sub.term.blocks.iter().enumerate().flat_map(move |(b, blk)| (0..blk.term.jmps.len()).map(move |d| (s, b, d))))
                .collect();
            if pos.len() < 2 {
                break;
            }
            let p = *self.rng.pick(&pos);
            let q = *self.rng.pick(&pos);
            if p != q {
                let t = subs[p.0].term.blocks[p.1].term.jmps[p.2].tid.clone();
                subs[q.0].term.blocks[q.1].term.jmps[q.2].tid = t;
            }
        }
        // duplicated non-entry block tids (never the tid of an entry block, never at position 0)
        for _ in 0..self.rng.below(3) {
            let src: Vec<(usize, usize)> = subs.iter().enumerate().flat_map(|(s, sub)| (1..sub.term.blocks.len()).map(move |b| (s, b))).collect();
            let entry_tids: BTreeSet<Tid> = subs.iter().filter_map(|s| s.term.blocks.first().map(|b| b.tid.clone())).collect();
            let dst: Vec<usize> = (0..subs.len()).filter(|s| !subs[*s].term.blocks.is_empty()).collect();
            if src.is_empty() || dst.is_empty() {
                break;
            }
            let (s, b) = *self.rng.pick(&src);
            let orig = subs[s].term.blocks[b].clone();
            if entry_tids.contains(&orig.tid) {
                continue;
            }
            let d = *self.rng.pick(&dst);
            let at = self.rng.range_usize(1, subs[d].term.blocks.len());
            let dup = if self.rng.bool() {
                orig // the same block emitted twice
            } else {
                // another block under the same tid
                let addr = orig.tid.address.clone();
                let defs = self.defs(&addr);
                let mut hints = Vec::new();
                let class = *self.rng.pick(&[0u64, 2, 5]);
                let j = self.uncond(d, &addr, class, &mut hints);
                blk(orig.tid.clone(), defs, vec![j])
            };
            subs[d].term.blocks.insert(at, dup);
        }
    }
}

/// Random program in the shape the P-Code extractor emits (`sub_*`, `blk_*`, `instr_*` tids).
pub fn gen_program(rng: &mut Rng, k: &Knobs) -> Project {
    let n_subs = rng.range_usize(1, k.max_subs);
    let sizes = [1usize, 1, 2, 2, 3, 3, 4, 5, 6, 8];
    let n_blocks: Vec<usize> = (0..n_subs).map(|_| if rng.chance(1, 7) { 0 } else { (*rng.pick(&sizes)).min(k.max_blocks) }).collect();
    let never_returns: Vec<bool> = (0..n_subs).map(|_| rng.chance(1, 4)).collect();
    let mut g = Gen { rng, k: k.clone(), n_blocks: n_blocks.clone(), never_returns, counter: 0 };
    let mut subs: Vec<Term<Sub>> = Vec::new();
    for i in 0..n_subs {
        let blocks: Vec<Term<Blk>> = (0..n_blocks[i]).map(|kk| g.block(i, kk)).collect();
        subs.push(sub(sub_tid(i), &format!("fn{i}"), blocks));
    }
    if k.listed_shared {
        for _ in 0..g.rng.range_usize(1, 3) {
            let src: Vec<(usize, usize)> = (0..n_subs).flat_map(|s| (1..n_blocks[s]).map(move |b| (s, b))).collect();
            let dst: Vec<usize> = (0..n_subs).filter(|s| n_blocks[*s] > 0).collect();
            if src.is_empty() || dst.len() < 2 {
                break;
            }
            let (s, b) = *g.rng.pick(&src);
            let d = *g.rng.pick(&dst);
            let blk = subs[s].term.blocks[b].clone();
            if d != s && !subs[d].term.blocks.iter().any(|x| x.tid == blk.tid) {
                subs[d].term.blocks.push(blk);
            }
        }
    }
    if k.dup_tids {
        g.inject_duplicates(&mut subs);
    }
    let externs = vec![
        extern_symbol("puts", ext_ret_tid(), &["RDI"], Some("RAX"), false),
        extern_symbol("exit", ext_noret_tid(), &["RDI"], None, true),
    ];
    let entry = subs[0].tid.clone();
    project_x64(program(subs, externs, Some(entry)))
}

// ---------------------------------------------------------------------------------------------
// Specification

fn l_start(b: &Tid, s: &Tid) -> String {
    format!("BlkStart({b} in {s})")
}
fn l_end(b: &Tid, s: &Tid) -> String {
    format!("BlkEnd({b} in {s})")
}
fn l_callsite(b: &Tid, s: &Tid) -> String {
    format!("Callsite({b} in {s})")
}
fn l_callsource(b: &Tid, s: &Tid, tb: &Tid, ts: &Tid) -> String {
    format!("CallSource({b} in {s} calls {tb} in {ts})")
}
fn l_callreturn(b: &Tid, s: &Tid, rb: &Tid, rs: &Tid) -> String {
    format!("CallReturn(call {b} in {s}, return from {rb} in {rs})")
}
fn l_edge(kind: &str, src: &str, dst: &str) -> String {
    format!("{kind} {src} => {dst}")
}
fn l_jump(j: &Tid, untaken: Option<&Tid>) -> String {
    match untaken {
        Some(u) => format!("Jump[{j}|untaken {u}]"),
        None => format!("Jump[{j}]"),
    }
}

type Multiset = BTreeMap<String, usize>;
fn ms_add(m: &mut Multiset, l: String) {
    *m.entry(l).or_insert(0) += 1;
}

pub struct Spec {
    pub nodes: Multiset,
    pub edges: Multiset,
    /// function tid -> label of the BlkStart node of its first block
    pub entries: BTreeMap<String, String>,
    /// (block, function) pairs where the function does not list the block
    pub foreign_pairs: usize,
    pub max_returns_linked: usize,
}

/// Why a program is outside the domain in which the specification decides.
pub enum NoSpec {
    /// outside the input domain of the builder (it may legitimately panic)
    OutOfDomain(&'static str, String),
    /// inside the domain, but the documentation does not determine the graph
    Silent(String),
}

fn has_return(b: &Term<Blk>) -> bool {
    b.term.jmps.iter().any(|j| matches!(j.term, Jmp::Return(_)))
}

/// Blocks of each function: the listed blocks plus everything reachable from them through
/// intraprocedural control flow. `returning`: `None` = follow the return site of every call;
/// `Some(set)` = follow the return site of a direct call only if something leads there
/// (extern callee => stub edge, callee in `set` => return linkage).
fn closures(p: &Program, blocks: &BTreeMap<Tid, &Term<Blk>>, returning: Option<&BTreeSet<Tid>>) -> BTreeMap<Tid, BTreeSet<Tid>> {
    let mut out = BTreeMap::new();
    for sub in p.subs.values() {
        let mut set: BTreeSet<Tid> = BTreeSet::new();
        let mut work: Vec<Tid> = sub.term.blocks.iter().map(|b| b.tid.clone()).collect();
        while let Some(t) = work.pop() {
            if !set.insert(t.clone()) {
                continue;
            }
            let b = blocks[&t];
            for j in &b.term.jmps {
                match &j.term {
                    Jmp::Branch(x) | Jmp::CBranch { target: x, .. } => work.push(x.clone()),
                    Jmp::BranchInd(_) => work.extend(b.term.indirect_jmp_targets.iter().cloned()),
                    Jmp::Call { target, return_: Some(r) } => {
                        let follow = match returning {
                            None => true,
                            Some(set) => p.extern_symbols.contains_key(target) || set.contains(target),
                        };
                        if follow {
                            work.push(r.clone());
                        }
                    }
                    Jmp::CallInd { return_: Some(r), .. } => work.push(r.clone()),
                    _ => (),
                }
            }
        }
        out.insert(sub.tid.clone(), set);
    }
    out
}

pub fn spec_of(program: &Term<Program>) -> Result<Spec, NoSpec> {
    let p = &program.term;
    // --- domain
    let mut blocks: BTreeMap<Tid, &Term<Blk>> = BTreeMap::new();
    for sub in p.subs.values() {
        let mut seen = BTreeSet::new();
        for b in &sub.term.blocks {
            if !seen.insert(b.tid.clone()) {
                return Err(NoSpec::OutOfDomain("block listed twice in one function", format!("{} in {}", b.tid, sub.tid)));
            }
            match blocks.get(&b.tid) {
                Some(other) if **other != *b => return Err(NoSpec::OutOfDomain("two different blocks under one tid", format!("{}", b.tid))),
                _ => {
                    blocks.insert(b.tid.clone(), b);
                }
            }
        }
    }
    for b in blocks.values() {
        let js = &b.term.jmps;
        if js.len() > 2 {
            return Err(NoSpec::OutOfDomain("more than two jumps in a block", format!("{}", b.tid)));
        }
        if js.len() == 2 && !matches!(js[0].term, Jmp::CBranch { .. }) {
            return Err(NoSpec::OutOfDomain("first of two jumps is not conditional", format!("{}", b.tid)));
        }
        if js.len() == 2 && matches!(js[1].term, Jmp::CBranch { .. }) {
            return Err(NoSpec::OutOfDomain("second of two jumps is conditional", format!("{}", b.tid)));
        }
        if js.len() == 1 && matches!(js[0].term, Jmp::CBranch { .. }) {
            return Err(NoSpec::OutOfDomain("only jump of a block is conditional", format!("{}", b.tid)));
        }
        for j in js {
            let mut need: Vec<&Tid> = Vec::new();
            match &j.term {
                Jmp::Branch(x) | Jmp::CBranch { target: x, .. } => need.push(x),
                Jmp::BranchInd(_) => need.extend(b.term.indirect_jmp_targets.iter()),
                Jmp::Call { return_: Some(r), .. } | Jmp::CallInd { return_: Some(r), .. } => need.push(r),
                _ => (),
            }
            for x in need {
                if !blocks.contains_key(x) {
                    return Err(NoSpec::OutOfDomain("nonexisting jump target or return site", format!("{x} in {}", j.tid)));
                }
            }
        }
    }
    // --- which blocks belong to which function
    let lax = closures(p, &blocks, None);
    let mut returning: BTreeSet<Tid> = BTreeSet::new();
    let strict = loop {
        let cl = closures(p, &blocks, Some(&returning));
        let now: BTreeSet<Tid> = p.subs.values().filter(|s| !s.term.blocks.is_empty() && cl[&s.tid].iter().any(|b| has_return(blocks[b]))).map(|s| s.tid.clone()).collect();
        if now == returning {
            break cl;
        }
        returning = now;
    };
    if strict != lax {
        return Err(NoSpec::Silent("return site of a call without linkage is not otherwise part of the caller".into()));
    }
    let cl = strict;
    // --- nodes and edges
    let mut spec = Spec { nodes: Multiset::new(), edges: Multiset::new(), entries: BTreeMap::new(), foreign_pairs: 0, max_returns_linked: 0 };
    for sub in p.subs.values() {
        let s = &sub.tid;
        if let Some(first) = sub.term.blocks.first() {
            spec.entries.insert(format!("{s}"), l_start(&first.tid, s));
        }
        for bt in &cl[s] {
            if !sub.term.blocks.iter().any(|b| b.tid == *bt) {
                spec.foreign_pairs += 1;
            }
            let b = blocks[bt];
            ms_add(&mut spec.nodes, l_start(bt, s));
            ms_add(&mut spec.nodes, l_end(bt, s));
            ms_add(&mut spec.edges, l_edge("Block", &l_start(bt, s), &l_end(bt, s)));
            let end = l_end(bt, s);
            for (idx, j) in b.term.jmps.iter().enumerate() {
                let untaken = if idx == 1 { Some(&b.term.jmps[0].tid) } else { None };
                match &j.term {
                    Jmp::Branch(x) | Jmp::CBranch { target: x, .. } => ms_add(&mut spec.edges, l_edge(&l_jump(&j.tid, untaken), &end, &l_start(x, s))),
                    Jmp::BranchInd(_) => {
                        for x in &b.term.indirect_jmp_targets {
                            ms_add(&mut spec.edges, l_edge(&l_jump(&j.tid, untaken), &end, &l_start(x, s)));
                        }
                    }
                    Jmp::Call { target, return_ } => {
                        if p.extern_symbols.contains_key(target) {
                            if let Some(r) = return_ {
                                ms_add(&mut spec.edges, l_edge(&format!("ExternCallStub[{}]", j.tid), &end, &l_start(r, s)));
                            }
                        } else if let Some(callee) = p.subs.get(target).filter(|c| !c.term.blocks.is_empty()) {
                            let ct = &callee.tid;
                            let entry = &callee.term.blocks[0].tid;
                            let cs = l_callsource(bt, s, entry, ct);
                            ms_add(&mut spec.nodes, cs.clone());
                            ms_add(&mut spec.edges, l_edge(&format!("CallCombine[{}]", j.tid), &end, &cs));
                            ms_add(&mut spec.edges, l_edge(&format!("Call[{}]", j.tid), &cs, &l_start(entry, ct)));
                            if let Some(r) = return_ {
                                let mut n = 0;
                                for rb in cl[ct].iter().filter(|rb| has_return(blocks[*rb])) {
                                    n += 1;
                                    let cr = l_callreturn(bt, s, rb, ct);
                                    ms_add(&mut spec.nodes, cr.clone());
                                    ms_add(&mut spec.edges, l_edge("CrCallStub", &l_callsite(bt, s), &cr));
                                    ms_add(&mut spec.edges, l_edge("CrReturnStub", &l_end(rb, ct), &cr));
                                    ms_add(&mut spec.edges, l_edge(&format!("ReturnCombine[{}]", j.tid), &cr, &l_start(r, s)));
                                }
                                spec.max_returns_linked = spec.max_returns_linked.max(n);
                            }
                        }
                        // call to an empty function or to an unknown tid: nothing
                    }
                    Jmp::CallInd { return_, .. } => {
                        if let Some(r) = return_ {
                            ms_add(&mut spec.edges, l_edge(&format!("ExternCallStub[{}]", j.tid), &end, &l_start(r, s)));
                        }
                    }
                    Jmp::CallOther { .. } | Jmp::Return(_) => (),
                }
            }
        }
    }
    Ok(spec)
}

// ---------------------------------------------------------------------------------------------
// Observation

fn node_label(n: &Node) -> String {
    match n {
        Node::BlkStart(b, s) => l_start(&b.tid, &s.tid),
        Node::BlkEnd(b, s) => l_end(&b.tid, &s.tid),
        Node::CallSource { source, target } => l_callsource(&source.0.tid, &source.1.tid, &target.0.tid, &target.1.tid),
        Node::CallReturn { call, return_ } => l_callreturn(&call.0.tid, &call.1.tid, &return_.0.tid, &return_.1.tid),
    }
}

/// The (block, function) references carried by a node must be terms of this program.
fn node_refs_ok(program: &Term<Program>, n: &Node) -> Result<(), String> {
    let pairs: Vec<(&Term<Blk>, &Term<Sub>)> = match n {
        Node::BlkStart(b, s) | Node::BlkEnd(b, s) => vec![(*b, *s)],
        Node::CallSource { source, target } => vec![*source, *target],
        Node::CallReturn { call, return_ } => vec![*call, *return_],
    };
    for (b, s) in pairs {
        match program.term.subs.get(&s.tid) {
            Some(ps) if std::ptr::eq(ps, s) || ps == s => (),
            _ => return Err(format!("node {} refers to a function term that is not the program's {}", node_label(n), s.tid)),
        }
        match program.term.find_block(&b.tid) {
            Some(pb) if std::ptr::eq(pb, b) || pb == b => (),
            _ => {
                // any listed block of that tid with equal content is fine
                let ok = program.term.subs.values().flat_map(|s| s.term.blocks.iter()).any(|pb| pb == b);
                if !ok {
                    return Err(format!("node {} refers to a block term that is not in the program", node_label(n)));
                }
            }
        }
    }
    Ok(())
}

pub struct Observed {
    pub nodes: Multiset,
    pub edges: Multiset,
    pub ref_errors: Vec<String>,
    pub crcallstub_from_callsource: usize,
    pub crcallstub_from_blkend: usize,
}

pub fn observe(program: &Term<Program>, g: &Graph) -> Observed {
    let mut o = Observed { nodes: Multiset::new(), edges: Multiset::new(), ref_errors: vec![], crcallstub_from_callsource: 0, crcallstub_from_blkend: 0 };
    for idx in g.node_indices() {
        ms_add(&mut o.nodes, node_label(&g[idx]));
        if let Err(e) = node_refs_ok(program, &g[idx]) {
            o.ref_errors.push(e);
        }
    }
    for e in g.edge_references() {
        let (src, dst) = (&g[e.source()], &g[e.target()]);
        let mut src_l = node_label(src);
        let kind = match e.weight() {
            Edge::Block => "Block".to_string(),
            Edge::Jump(j, u) => l_jump(&j.tid, u.map(|u| &u.tid)),
            Edge::Call(j) => format!("Call[{}]", j.tid),
            Edge::ExternCallStub(j) => format!("ExternCallStub[{}]", j.tid),
            Edge::CallCombine(j) => format!("CallCombine[{}]", j.tid),
            Edge::ReturnCombine(j) => format!("ReturnCombine[{}]", j.tid),
            Edge::CrReturnStub => "CrReturnStub".to_string(),
            Edge::CrCallStub => {
                match src {
                    Node::CallSource { source, .. } => {
                        o.crcallstub_from_callsource += 1;
                        src_l = l_callsite(&source.0.tid, &source.1.tid);
                    }
                    Node::BlkEnd(b, s) => {
                        o.crcallstub_from_blkend += 1;
                        src_l = l_callsite(&b.tid, &s.tid);
                    }
                    _ => (),
                }
                "CrCallStub".to_string()
            }
        };
        // jump references must be jumps of the source block
        let jref: Vec<&Term<Jmp>> = match e.weight() {
            Edge::Jump(j, Some(u)) => vec![*j, *u],
            Edge::Jump(j, None) | Edge::Call(j) | Edge::ExternCallStub(j) | Edge::CallCombine(j) => vec![*j],
            _ => vec![],
        };
        if let Node::BlkEnd(b, _) | Node::CallSource { source: (b, _), .. } = src {
            for j in jref {
                if !b.term.jmps.iter().any(|x| x == j) {
                    o.ref_errors.push(format!("edge {kind} from {src_l} carries a jump that is not a jump of its source block"));
                }
            }
        }
        ms_add(&mut o.edges, l_edge(&kind, &src_l, &node_label(dst)));
    }
    o
}

fn ms_diff(expected: &Multiset, observed: &Multiset) -> Vec<(bool, String, usize, usize)> {
    // (missing?, label, expected count, observed count)
    let mut out = Vec::new();
    for (l, n) in expected {
        let m = observed.get(l).copied().unwrap_or(0);
        if m < *n {
            out.push((true, l.clone(), *n, m));
        } else if m > *n {
            out.push((false, l.clone(), *n, m));
        }
    }
    for (l, m) in observed {
        if !expected.contains_key(l) {
            out.push((false, l.clone(), 0, *m));
        }
    }
    out
}

fn kind_word(label: &str) -> &str {
    let end = label.find(|c: char| !c.is_ascii_alphanumeric()).unwrap_or(label.len());
    &label[..end]
}

#[derive(Default, Debug, Clone, Copy, PartialEq, Eq)]
pub struct CfgOutcome {
    pub decided: bool,
    pub violated: bool,
    pub nontrivial: bool,
}

/// Run the real graph builder on `program` and judge the result with the specification.
pub fn check_cfg(program: &Term<Program>, stage: &str, rep: &mut Report, case: &dyn Fn() -> Value) -> CfgOutcome {
    rep.eval();
    let size = program.term.subs.values().map(|s| 1 + s.term.blocks.len() as u64).sum::<u64>();
    let spec = match spec_of(program) {
        Ok(s) => s,
        Err(NoSpec::OutOfDomain(why, _detail)) => {
            rep.inconclusive(&format!("{stage}:program-outside-builder-domain({why})"));
            return CfgOutcome::default();
        }
        Err(NoSpec::Silent(_)) => {
            rep.inconclusive(&format!("{stage}:documentation-silent(return-site-of-unlinked-call-not-otherwise-reachable)"));
            // the builder must still not panic on it
            if let Err(p) = guard(|| graph::get_program_cfg_with_logs(program).0.node_count()) {
                rep.violation(format!("{stage}:panic:{}", panic_site(&p)), None, format!("get_program_cfg_with_logs panicked: {p}\n{}", show_program(&program.term)), case(), size);
                return CfgOutcome { decided: true, violated: true, nontrivial: false };
            }
            return CfgOutcome::default();
        }
    };
    let mut out = CfgOutcome { decided: true, violated: false, nontrivial: false };
    let g = match guard(|| graph::get_program_cfg_with_logs(program)) {
        Ok((g, _logs)) => g,
        Err(p) => {
            rep.violation(format!("{stage}:panic:{}", panic_site(&p)), None, format!("get_program_cfg_with_logs panicked on a program inside its input domain: {p}\n{}", show_program(&program.term)), case(), size);
            out.violated = true;
            return out;
        }
    };
    let obs = observe(program, &g);
    let mut complain = |rep: &mut Report, sig: String, detail: String| {
        rep.violation(format!("{stage}:{sig}"), None, format!("{detail}\n--- program ({stage}):\n{}", show_program(&program.term)), case(), size);
        out.violated = true;
    };
    for (what, exp, got) in [("node", &spec.nodes, &obs.nodes), ("edge", &spec.edges, &obs.edges)] {
        let diff = ms_diff(exp, got);
        let mut groups: BTreeMap<String, Vec<String>> = BTreeMap::new();
        for (missing, label, n, m) in diff {
            let sig = format!("{}-{what}:{}", if missing { "missing" } else { "unexpected" }, kind_word(&label));
            groups.entry(sig).or_default().push(format!("  {label}   (expected {n} x, observed {m} x)"));
        }
        for (sig, lines) in groups {
            let shown: Vec<String> = lines.iter().take(8).cloned().collect();
            complain(rep, sig.clone(), format!("{sig}: the specification and the built graph differ in {} label(s):\n{}", lines.len(), shown.join("\n")));
        }
    }
    if let Some(e) = obs.ref_errors.first() {
        complain(rep, "dangling-reference".into(), e.clone());
    }
    // entry nodes
    match guard(|| graph::get_entry_nodes_of_subs(&g)) {
        Err(p) => complain(rep, format!("entry-nodes:panic:{}", panic_site(&p)), format!("get_entry_nodes_of_subs panicked: {p}")),
        Ok(map) => {
            let got: BTreeMap<String, String> = map.iter().map(|(t, idx)| (format!("{t}"), g.node_weight(*idx).map(node_label).unwrap_or_else(|| "<invalid node index>".into()))).collect();
            if got != spec.entries {
                let mut lines = Vec::new();
                for (s, l) in &spec.entries {
                    match got.get(s) {
                        Some(x) if x == l => (),
                        Some(x) => lines.push(format!("  {s}: expected {l}, observed {x}")),
                        None => lines.push(format!("  {s}: expected {l}, observed no entry")),
                    }
                }
                for (s, x) in &got {
                    if !spec.entries.contains_key(s) {
                        lines.push(format!("  {s}: expected no entry (function has no blocks), observed {x}"));
                    }
                }
                complain(rep, "entry-nodes".into(), format!("get_entry_nodes_of_subs differs from {{non-empty function -> BlkStart of its first block}}:\n{}", lines.join("\n")));
            }
        }
    }
    // get_program_cfg is the same graph
    match guard(|| {
        let g2 = graph::get_program_cfg(program);
        let o2 = observe(program, &g2);
        (o2.nodes, o2.edges)
    }) {
        Err(p) => complain(rep, format!("get_program_cfg:panic:{}", panic_site(&p)), format!("get_program_cfg panicked: {p}")),
        Ok((n2, e2)) => {
            if n2 != obs.nodes || e2 != obs.edges {
                complain(rep, "get_program_cfg-differs-from-with_logs".into(), "get_program_cfg and get_program_cfg_with_logs built different graphs for the same program".into());
            }
        }
    }
    // bookkeeping of what was driven
    let mut kinds: BTreeMap<&str, u64> = BTreeMap::new();
    for (l, n) in &spec.edges {
        *kinds.entry(kind_word(l)).or_insert(0) += *n as u64;
    }
    for (k, n) in &kinds {
        rep.obs_n(&format!("{stage}:edges:{k}"), *n);
    }
    rep.obs_n(&format!("{stage}:nodes"), spec.nodes.values().sum::<usize>() as u64);
    if spec.foreign_pairs > 0 {
        rep.obs(&format!("{stage}:programs-with-(block,function)-pairs-not-listed-in-the-function"));
    }
    if spec.max_returns_linked >= 2 {
        rep.obs(&format!("{stage}:programs-with-call-linked-to>=2-return-blocks"));
    }
    if spec.edges.iter().any(|(l, n)| *n > 1 && l.starts_with("Jump")) {
        rep.obs(&format!("{stage}:programs-with-repeated-identical-jump-edge"));
    }
    if obs.crcallstub_from_callsource > 0 {
        rep.obs_n("CrCallStub-starts-at-CallSource", obs.crcallstub_from_callsource as u64);
    }
    if obs.crcallstub_from_blkend > 0 {
        rep.obs_n("CrCallStub-starts-at-BlkEnd", obs.crcallstub_from_blkend as u64);
    }
    let special = kinds.iter().any(|(k, n)| matches!(*k, "Call" | "ExternCallStub") && *n > 0);
    out.nontrivial = special && kinds.get("Jump").copied().unwrap_or(0) > 0;
    out
}

/// Check one generated project in raw form and after `normalize_basic`.
pub fn check_project(raw: &Project, rep: &mut Report, want_sample: bool) {
    let case_raw = || json!({"stage": "raw", "project": project_to_json(raw)});
    let o = check_cfg(&raw.program, "raw", rep, &case_raw);
    if o.nontrivial {
        rep.nontrivial(crate::prng::mix(1, fp_of(&raw.program)));
    }
    let mut norm = raw.clone();
    match guard(|| {
        let _ = norm.normalize_basic();
    }) {
        Ok(()) => {
            let case_n = || json!({"stage": "normalized", "project": project_to_json(&norm)});
            let o2 = check_cfg(&norm.program, "normalized", rep, &case_n);
            if o2.nontrivial {
                rep.nontrivial(crate::prng::mix(2, fp_of(&norm.program)));
            }
            if want_sample && o.nontrivial && o2.nontrivial && rep.wants_sample() {
                if let Ok(spec) = spec_of(&norm.program) {
                    rep.sample(json!({
                        "raw_program": show_program(&raw.program.term),
                        "normalized_program": show_program(&norm.program.term),
                        "expected_nodes_normalized": spec.nodes,
                        "expected_edges_normalized": spec.edges,
                        "expected_entry_nodes": spec.entries,
                        "verdict": if o.violated || o2.violated { "differs" } else { "observed graph has exactly these labels (raw and normalized)" },
                    }));
                }
            }
        }
        Err(p) => {
            // normalize_basic is C09's subject; here it is only a source of inputs
            rep.inconclusive(&format!("normalize_basic-panicked:{}", panic_site(&p)));
        }
    }
}

fn observe_features(project: &Project, rep: &mut Report) {
    let p = &project.program.term;
    let mut feats: BTreeSet<&'static str> = BTreeSet::new();
    for s in p.subs.values() {
        let returns = s.term.blocks.iter().filter(|b| has_return(b)).count();
        if returns >= 2 {
            feats.insert("raw:function-with->=2-return-blocks");
        }
        for b in &s.term.blocks {
            if b.term.jmps.is_empty() {
                feats.insert("raw:block-without-jump");
            }
            if b.term.jmps.len() == 2 && !matches!(b.term.jmps[1].term, Jmp::Branch(_)) {
                feats.insert("raw:two-jumps-second-not-a-plain-branch");
            }
            let ind = b.term.jmps.iter().any(|j| matches!(j.term, Jmp::BranchInd(_)));
            if ind {
                feats.insert(match b.term.indirect_jmp_targets.len() {
                    0 => "raw:BranchInd-with-0-hints",
                    1 => "raw:BranchInd-with-1-hint",
                    2 => "raw:BranchInd-with-2-hints",
                    _ => "raw:BranchInd-with-3-hints",
                });
            } else if !b.term.indirect_jmp_targets.is_empty() {
                feats.insert("raw:hints-on-block-without-BranchInd");
            }
            for j in &b.term.jmps {
                match &j.term {
                    Jmp::Call { target, return_ } => {
                        let ret = return_.is_some();
                        if p.extern_symbols.contains_key(target) {
                            feats.insert(if ret { "raw:extern-call-with-return-site" } else { "raw:extern-call-without-return-site" });
                        } else if let Some(c) = p.subs.get(target) {
                            if c.term.blocks.is_empty() {
                                feats.insert("raw:call-to-empty-function");
                            } else if *target == s.tid {
                                feats.insert("raw:self-recursive-call");
                            } else {
                                feats.insert(if ret { "raw:internal-call-with-return-site" } else { "raw:internal-call-without-return-site" });
                            }
                        } else {
                            feats.insert("raw:call-to-unknown-tid");
                        }
                    }
                    Jmp::CallInd { return_, .. } => {
                        feats.insert(if return_.is_some() { "raw:indirect-call-with-return-site" } else { "raw:indirect-call-without-return-site" });
                    }
                    Jmp::CallOther { .. } => {
                        feats.insert("raw:CALLOTHER");
                    }
                    _ => (),
                }
            }
        }
    }
    for f in feats {
        rep.obs(f);
    }
}

fn run(cfg: &Cfg) -> Report {
    let shards = cfg.tier.pick(256usize, 2048usize);
    let per_shard = cfg.tier.pick(700usize, 2500usize);
    par_shards(cfg, "c08", shards, |idx, rng, rep| {
        for _ in 0..per_shard {
            let knobs = Knobs::c08(rng);
            let project = gen_program(rng, &knobs);
            rep.obs(&format!("knobs:shared={}", knobs.shared));
            if knobs.listed_shared {
                rep.obs("knobs:block-listed-in-two-functions");
            }
            if project.program.term.subs.values().any(|s| s.term.blocks.is_empty()) {
                rep.obs("programs-with-empty-function");
            }
            observe_features(&project, rep);
            let small = project.program.term.subs.len() <= 3 && project.program.term.subs.values().map(|s| s.term.blocks.len()).sum::<usize>() <= 5;
            check_project(&project, rep, idx < 4 && small && (knobs.shared > 0 || idx % 2 == 0));
        }
    })
}

fn replay(_cfg: &Cfg, case: &Value) -> Report {
    let mut rep = Report::new();
    match project_from_json(&case["project"]) {
        Ok(project) => {
            let stage = case["stage"].as_str().unwrap_or("raw").to_string();
            let c = || case.clone();
            check_cfg(&project.program, &stage, &mut rep, &c);
        }
        Err(e) => rep.note(format!("cannot parse replay case: {e}")),
    }
    rep
}
